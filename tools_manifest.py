#!/usr/bin/env python3
"""Regenerates MANIFEST.json from the table below (keeps it valid at all times)."""
import json, os
CHECKS = {}
def chk(pid, cat, text, note, tech, ref, thorough=True):
    CHECKS[pid] = dict(property_id=pid, quick_cmd=f"./check {pid} --tier quick",
                       **({"thorough_cmd": f"./check {pid} --tier thorough"} if thorough else {}),
                       evidence_file=f"/verif/evidence/{pid}.json", replay_cmd_template=f"./check {pid} --replay {{path}}",
                       engine=tech.split(":")[0], level_claimed=dict(category=cat, text=text, design_ref=ref),
                       level_note=note, technique=tech)
exec(open(os.path.join(os.path.dirname(__file__), "manifest_table.py")).read())
props = [json.loads(l)["id"] for l in open(os.path.join(os.path.dirname(__file__), "properties.jsonl"))]
na = [dict(property_id=p, reason=NOT_APPLICABLE.get(p, "check not built yet in this round (see DESIGN.md section 3 for the plan)")) for p in props if p not in CHECKS]
m = dict(version=1, setup_cmd="./setup.sh",
         hooks=dict(guard="ROT127_RZIL_COMPILER_VERIF", enable="none needed: the checks drive the public API of /repo's working tree; no hook commits exist",
                    baseline_off_cmd="cd /repo && /venv/bin/python -m pytest -ra -q -p no:cacheprovider --timeout=900 --continue-on-collection-errors",
                    source_commits=[], add_only=True),
         engines=ENGINES, checks=[CHECKS[p] for p in props if p in CHECKS], notes=NOTES, not_applicable=na)
json.dump(m, open(os.path.join(os.path.dirname(__file__), "MANIFEST.json"), "w"), indent=1)
print("checks:", sorted(CHECKS), "not_applicable:", [x["property_id"] for x in na])
