"""Semantics of the emitted RzIL effect text (both output layouts and sub-routine DEF bodies).

Written once against vf.dom: with Z3Dom it builds the symbolic final state (deciding domain), with
ConcDom it is the concrete interpreter used to replay solver models.  RzIL rules, not C rules:
DIV/MOD unsigned with RzIL's division-by-zero results, shift amounts of any width, CAST with fill bool.
"""
import re
import z3
from .ilparse import parse_body, parse_subroutine, ILSyntaxError  # noqa: F401
from .dom import Z3Dom, ConcDom, CBV, CMem, tag16


class ILSortError(Exception):
    """The emitted effect is ill-sorted under RzIL typing (C10)."""


class ModelGap(Exception):
    """Something outside this model (inconclusive; never a verdict)."""


class ILUninit(ModelGap):
    """A local is read on a path on which nothing has written it yet."""

    def __init__(self, name):
        ModelGap.__init__(self, f"read of never-set local {name}")
        self.name = name


ALIAS64 = ("HEX_REG_ALIAS_UPCYCLE", "HEX_REG_ALIAS_PKTCOUNT", "HEX_REG_ALIAS_UTIMER")
CLASS_WIDTH = {"HEX_REG_CLASS_PRED_REGS": 8, "HEX_REG_CLASS_INT_REGS": 32, "HEX_REG_CLASS_CTR_REGS": 32,
               "HEX_REG_CLASS_MOD_REGS": 32, "HEX_REG_CLASS_DOUBLE_REGS": 64, "HEX_REG_CLASS_CTR_REGS64": 64,
               "HEX_REG_CLASS_GUEST_REGS": 32, "HEX_REG_CLASS_SYS_REGS": 32, "HEX_REG_CLASS_GUEST_REGS64": 64,
               "HEX_REG_CLASS_SYS_REGS64": 64}


class Env:
    """Initial machine state + operand table (letter -> width) taken from the behaviour's operand tokens."""

    def __init__(self, D, optable=None, values=None):
        self.D = D
        self.optable = dict(optable or {})
        self.values = values  # concrete: name -> int ; None in symbolic mode
        self._c = {}
        if D.symbolic:
            self.mem0 = z3.Array("mem0", z3.BitVecSort(32), z3.BitVecSort(8))
        else:
            vals = values or {}
            memf = vals.get("__mem__") or (lambda a: 0)
            self.mem0 = CMem(lambda a: CBV(8, memf(a)))
        self.used = {}

    def sym(self, name, w):
        self.used[name] = w
        if self.D.symbolic:
            if name not in self._c:
                self._c[name] = z3.BitVec(name, w)
            return self._c[name]
        return CBV(w, int((self.values or {}).get(name, 0)))

    def reg_width(self, ident):
        kind = ident[0]
        if kind in ("isa", "nreg"):
            if kind == "nreg":
                return 32
            if ident[1] not in self.optable:
                raise ModelGap(f"operand letter {ident[1]} not in the behaviour's operand table")
            return self.optable[ident[1]]
        if kind == "explicit":
            if ident[2] not in CLASS_WIDTH:
                raise ModelGap(f"register class {ident[2]}")
            return CLASS_WIDTH[ident[2]]
        if kind == "alias":
            return 64 if ident[1] in ALIAS64 else 32
        raise ModelGap(str(ident))

    @staticmethod
    def ident_name(ident):
        return "_".join(str(x) for x in ident)

    def reg_old0(self, ident):
        return self.sym("old_" + self.ident_name(ident), self.reg_width(ident))

    def reg_new0(self, ident):
        return self.sym("new_" + self.ident_name(ident), self.reg_width(ident))

    def imm(self, letter):
        return self.sym("imm_" + letter, 32)

    def pkt_addr(self):
        return self.sym("pkt_addr", 32)


class State:
    """Machine state shared by both semantics."""

    def __init__(self, env, alt_contract=False):
        self.env = env
        self.D = env.D
        self.locals = {}
        self.linit = {}
        self.regnew = {}
        self.regw = {}
        self.mem = env.mem0
        self.cancel = self.D.false
        self.imms = {}
        self.obligations = []
        self.alt_contract = alt_contract
        self.trace = []

    def copy(self):
        s = State.__new__(State)
        s.env, s.D = self.env, self.D
        s.locals = dict(self.locals)
        s.linit = dict(self.linit)
        s.regnew = dict(self.regnew)
        s.regw = dict(self.regw)
        s.mem = self.mem
        s.cancel = self.cancel
        s.imms = dict(self.imms)
        s.obligations = self.obligations
        s.alt_contract = self.alt_contract
        s.trace = self.trace
        return s

    @staticmethod
    def merge(c, a, b):
        D = a.D
        if D.is_true(c):
            return a
        if D.is_false(c):
            return b
        s = a.copy()
        for k in set(a.locals) | set(b.locals):
            if k in a.locals and k in b.locals:
                x, y = a.locals[k], b.locals[k]
                if not D.same_sort(x, y):
                    raise ILSortError(f"local {k} has two sorts {D.sort_name(x)} / {D.sort_name(y)}")
                s.locals[k] = D.ite(c, x, y)
                s.linit[k] = D.simplify(D.ite(c, a.linit[k], b.linit[k]))
            else:
                src = a if k in a.locals else b
                s.locals[k] = src.locals[k]
                s.linit[k] = D.simplify(D.band(c if src is a else D.bnot(c), src.linit[k]))
        for k in set(a.regnew) | set(b.regnew):
            x = a.regnew.get(k)
            y = b.regnew.get(k)
            if x is None:
                x = a.env.reg_new0(k)
            if y is None:
                y = a.env.reg_new0(k)
            s.regnew[k] = D.ite(c, x, y)
            s.regw[k] = D.simplify(D.ite(c, a.regw.get(k, D.false), b.regw.get(k, D.false)))
        s.mem = D.mem_ite(c, a.mem, b.mem)
        s.cancel = D.ite(c, a.cancel, b.cancel)
        for k in set(a.imms) | set(b.imms):
            x = a.imms.get(k)
            y = b.imms.get(k)
            if x is None:
                x = a.env.imm(k)
            if y is None:
                y = a.env.imm(k)
            s.imms[k] = D.ite(c, x, y)
        return s

    # registers -- the operand/plugin contract of DESIGN.md 1.1
    def read_reg(self, ident, new):
        D = self.D
        if new:
            v = self.regnew.get(ident)
            return v if v is not None else self.env.reg_new0(ident)
        if ident in self.regw and not self.alt_contract:
            return D.ite(self.regw[ident], self.regnew[ident], self.env.reg_old0(ident))
        return self.env.reg_old0(ident)

    def write_reg(self, ident, val):
        w = self.env.reg_width(ident)
        if self.D.size(val) != w:
            raise ILSortError(f"WRITE_REG {ident}: value width {self.D.size(val)} != register width {w}")
        self.regnew[ident] = val
        self.regw[ident] = self.D.true

    def load(self, addr, nbits):
        D = self.D
        if not D.is_bv(addr) or D.size(addr) != 32:
            raise ILSortError(f"LOADW: address is not a 32-bit bitvector")
        if nbits % 8 or nbits <= 0:
            raise ILSortError(f"LOADW: width {nbits}")
        bs = [D.select(self.mem, D.add(addr, D.bv(32, i))) for i in range(nbits // 8)]
        return D.concat(*reversed(bs))

    def store(self, addr, val):
        D = self.D
        if not D.is_bv(addr) or D.size(addr) != 32:
            raise ILSortError(f"STOREW: address is not a 32-bit bitvector")
        if D.size(val) % 8:
            raise ILSortError(f"STOREW: value width {D.size(val)}")
        for i in range(D.size(val) // 8):
            self.mem = D.store(self.mem, D.add(addr, D.bv(32, i)), D.extract(8 * i + 7, 8 * i, val))


# ------------------------------------------------------------------------------------------------
# plugin macros with arithmetic meaning (qemu/bitops.h); everything else is an uninterpreted function

MACRO_RET = {"EXTRACT64": 64, "SEXTRACT64": 64, "DEPOSIT64": 64, "EXTRACT32": 32, "DEPOSIT32": 32,
             "BSWAP16": 16, "BSWAP32": 32, "BSWAP64": 64, "HEX_REGFIELD": 32, "HEX_GET_CORRESPONDING_CS": 32,
             "HEX_GET_NPC": 32, "HEX_D_TO_INT": 64, "HEX_D_TO_SINT": 64, "HEX_F_TO_INT": 64, "HEX_F_TO_SINT": 64,
             "HEX_INT_TO_D": 64, "HEX_SINT_TO_D": 64, "HEX_INT_TO_F": 32, "HEX_SINT_TO_F": 32}
MACRO_ARGW = {"EXTRACT64": [64, 32, 32], "SEXTRACT64": [64, 32, 32], "DEPOSIT64": [64, 32, 32, 64],
              "EXTRACT32": [32, 32, 32], "DEPOSIT32": [32, 32, 32, 32], "BSWAP16": [16], "BSWAP32": [32],
              "BSWAP64": [64]}
FLOAT_BIN = {"FADD", "FSUB", "FMUL", "FDIV"}
FLOAT_CMP = {"FEQ", "FGT", "FGE", "FLT", "FLE", "FNE"}


def macro_sem(D, n, a):
    """bitops.h semantics; start/length arguments are 32-bit.  Returns None for non-arithmetic macros."""
    def field(w, start, length):
        return D.zext(w - 32, start), D.zext(w - 32, length)
    if n in ("EXTRACT64", "EXTRACT32", "SEXTRACT64"):
        w = 32 if n == "EXTRACT32" else 64
        v = a[0]
        s, l = field(w, a[1], a[2])
        W = D.bv(w, w)
        if n == "SEXTRACT64":
            return D.ashr(D.shl(v, D.sub(D.sub(W, l), s)), D.sub(W, l))
        return D.and_(D.lshr(v, s), D.lshr(D.bv(w, -1), D.sub(W, l)))
    if n in ("DEPOSIT64", "DEPOSIT32"):
        w = 32 if n == "DEPOSIT32" else 64
        v, f = a[0], a[3]
        s, l = field(w, a[1], a[2])
        mask = D.shl(D.lshr(D.bv(w, -1), D.sub(D.bv(w, w), l)), s)
        return D.or_(D.and_(v, D.not_(mask)), D.and_(D.shl(f, s), mask))
    if n in ("BSWAP16", "BSWAP32", "BSWAP64"):
        w = int(n[5:])
        bs = [D.extract(8 * i + 7, 8 * i, a[0]) for i in range(w // 8)]
        return D.concat(*bs)
    return None


def macro_defined(D, n, a):
    """Definedness of the bitops helpers (QEMU asserts start >= 0, length > 0, length <= w - start)."""
    if n in ("EXTRACT64", "EXTRACT32", "SEXTRACT64", "DEPOSIT64", "DEPOSIT32"):
        w = 32 if n.endswith("32") else 64
        s, l = a[1], a[2]
        W = D.bv(32, w)
        return D.band(D.ult(s, W), D.ugt(l, D.bv(32, 0)), D.ule(l, D.sub(W, s)))
    return D.true


_sub_cache = {}


def parsed_sub(text):
    if text not in _sub_cache:
        _sub_cache[text] = parse_subroutine(text)
    return _sub_cache[text]


class ILExec:
    def __init__(self, env, subroutines, unroll=9, flat_namespace=True):
        self.env = env
        self.D = env.D
        self.subs = subroutines  # name -> DEF text
        self.unroll = unroll
        self.stats = {"nodes": 0, "max_trip": 0}
        self.defined = []  # definedness of bitops macros on the IL side (assumed, like the C side's)

    # -- body handling ---------------------------------------------------
    def run_body(self, text, st, pc=None, binds=None):
        D = self.D
        pc = D.true if pc is None else pc
        decls, ret = parse_body(text) if isinstance(text, str) else text
        cenv = dict(binds or {})
        for kind, name, term, ptr in decls:
            if name in cenv and not (binds and name in binds and kind.startswith("cvar")):
                raise ILSyntaxError(f"C identifier {name} declared twice")
            cenv[name] = (kind, term)
        return self.effect(ret, st, pc, cenv)

    def op_ident(self, term, cenv):
        if term[0] == "addr":
            term = ("id", term[1])
        if term[0] == "id":
            if term[1] not in cenv:
                raise ILSyntaxError(f"undeclared operand variable {term[1]}")
            kind, t = cenv[term[1]]
            if kind == "opval":
                return t
            if kind != "op":
                raise ILSortError(f"{term[1]} is not a HexOp")
            return self.op_ident(t, cenv)
        if term[0] == "call":
            n, a = term[1], term[2]
            try:
                if n == "ISA2REG":
                    return ("isa", a[1][1])
                if n == "EXPLICIT2OP":
                    return ("explicit", a[0][1], a[1][1])
                if n == "ALIAS2OP":
                    return ("alias", a[0][1])
                if n == "NREG2OP":
                    return ("nreg", a[1][1])
            except IndexError:
                raise ILSyntaxError(f"operand resolver arity: {term}")
        raise ModelGap(f"operand {term}")

    def op_new_flag(self, term, cenv):
        """The `new` argument of the resolver call that produced this operand (None for NREG2OP/params)."""
        if term[0] == "addr":
            term = ("id", term[1])
        if term[0] == "id":
            kind, t = cenv.get(term[1], (None, None))
            if kind == "op":
                return self.op_new_flag(t, cenv)
            return None
        if term[0] == "call" and term[1] in ("ISA2REG", "EXPLICIT2OP", "ALIAS2OP"):
            return term[2][-1] == ("id", "true")
        return None

    # -- effects ---------------------------------------------------------
    def effect(self, t, st, pc, cenv):
        D = self.D
        self.stats["nodes"] += 1
        if t[0] == "id":
            if t[1] not in cenv:
                raise ILSyntaxError(f"undeclared identifier {t[1]}")
            kind, term = cenv[t[1]]
            if kind != "effect":
                raise ILSortError(f"{t[1]} used as effect but is {kind}")
            return self.effect(term, st, pc, cenv)
        if t[0] != "call":
            raise ILSortError(f"not an effect: {t}")
        n, a = t[1], t[2]
        if n in ("EMPTY", "NOP"):
            if a:
                raise ILSyntaxError(f"{n} takes no arguments")
            return st
        if n in ("SEQN", "SEQ2", "SEQ3", "SEQ4", "SEQ5", "SEQ6", "SEQ7", "SEQ8"):
            if n == "SEQN":
                if not a or a[0][0] != "num":
                    raise ILSyntaxError("SEQN without count")
                cnt = a[0][1]
                a = a[1:]
            else:
                cnt = int(n[3:])
            if cnt != len(a):
                raise ILSortError(f"{n} count {cnt} != {len(a)} arguments")
            for e in a:
                st = self.effect(e, st, pc, cenv)
            return st
        if n == "SETL":
            if len(a) != 2 or a[0][0] != "str":
                raise ILSyntaxError("SETL(name, value)")
            name = a[0][1]
            v = self.pure(a[1], st, pc, cenv, {})
            if name == "jump_flag":
                if not D.is_bool(v):
                    raise ILSortError("jump_flag must be a bool")
            if name in st.locals and not D.same_sort(st.locals[name], v):
                raise ILSortError(f"local {name} changes sort {D.sort_name(st.locals[name])} -> {D.sort_name(v)}")
            st.locals[name] = v
            st.linit[name] = D.true
            return st
        if n == "WRITE_REG":
            if len(a) != 3:
                raise ILSyntaxError("WRITE_REG arity")
            ident = self.op_ident(a[1], cenv)
            v = self.pure(a[2], st, pc, cenv, {})
            if not D.is_bv(v):
                raise ILSortError(f"WRITE_REG {ident}: value is a bool")
            st.write_reg(ident, v)
            return st
        if n == "STOREW":
            addr = self.pure(a[0], st, pc, cenv, {})
            v = self.pure(a[1], st, pc, cenv, {})
            if not D.is_bv(v):
                raise ILSortError("STOREW: value is a bool")
            st.store(addr, v)
            return st
        if n == "BRANCH":
            if len(a) != 3:
                raise ILSyntaxError("BRANCH arity")
            c = self.pure(a[0], st, pc, cenv, {})
            if not D.is_bool(c):
                raise ILSortError("BRANCH condition is not a bool")
            c = D.simplify(c)
            if not D.symbolic:
                # sort-check the arm not taken as well (C10: every arm)
                return self.effect(a[1] if c else a[2], st, pc, cenv)
            s1 = self.effect(a[1], st.copy(), D.band(pc, c), cenv)
            s2 = self.effect(a[2], st.copy(), D.band(pc, D.bnot(c)), cenv)
            return State.merge(c, s1, s2)
        if n == "REPEAT":
            if len(a) != 2:
                raise ILSyntaxError("REPEAT arity")
            return self.repeat(a, st, pc, cenv, self.unroll, 0)
        if n == "HEX_STORE_SLOT_CANCELLED":
            st.cancel = D.true
            return st
        if n == "HEX_GET_NPC":
            # plugin service: leaves the next packet address in ret_val (64 bit like every ret_val)
            v = D.zext(32, D.uf("HEX_GET_NPC", [D.bv(16, tag16("pkt"))], 32))
            if "ret_val" in st.locals and not D.same_sort(st.locals["ret_val"], v):
                raise ILSortError("local ret_val changes sort")
            st.locals["ret_val"] = v
            st.linit["ret_val"] = D.true
            return st
        if n.startswith("hex_") and n[4:] in self.subs:
            return self.call(n[4:], a, st, pc, cenv)
        if n.startswith("hex_"):
            # the hex_ prefix is the compiler's own naming scheme for sub-routine definitions: a call of a hex_ function that no
            # registered sub-routine defines does not link
            raise ILSyntaxError(f"call of {n}(): no sub-routine definition of that name (C identifiers are case sensitive)")
        raise ModelGap(f"effect {n}")

    def repeat(self, a, st, pc, cenv, k, depth):
        D = self.D
        c = self.pure(a[0], st, pc, cenv, {})
        if not D.is_bool(c):
            raise ILSortError("REPEAT condition is not a bool")
        c = D.simplify(c)
        if D.is_false(c):
            return st
        if k == 0:
            st.obligations.append((D.band(pc, c), "IL unwinding bound exceeded"))
            return st
        self.stats["max_trip"] = max(self.stats["max_trip"], depth + 1)
        s1 = self.effect(a[1], st.copy(), D.band(pc, c), cenv)
        s1 = self.repeat(a, s1, D.band(pc, c), cenv, k - 1, depth + 1)
        return State.merge(c, s1, st)

    def call(self, name, args, st, pc, cenv):
        sname, params, decls, ret = parsed_sub(self.subs[name])
        if sname != "hex_" + name:
            raise ILSyntaxError(f"sub-routine definition is named {sname}, expected hex_{name}")
        if len(params) != len(args):
            raise ILSortError(f"call {name}: {len(args)} args for {len(params)} params")
        binds = {}
        for (pty, pn), arg in zip(params, args):
            if "RzILOpPure" in pty:
                # RzIL semantics: the argument is an expression *tree* spliced into the callee's effect and
                # evaluated where the callee uses it (by name), against the state at that point
                binds[pn] = ("pureclosure", (arg, cenv))
            elif "HexOp" in pty:
                binds[pn] = ("opval", self.op_ident(arg, cenv))
            else:
                binds[pn] = ("cval", self.cval(arg, cenv))
        return self.run_body((decls, ret), st, pc, binds)

    def cval(self, arg, cenv):
        """C-level pass-through arguments (bundle, enum constants) - resolved to a stable tag string."""
        if arg[0] == "id" and arg[1] in cenv and cenv[arg[1]][0] == "cval":
            return cenv[arg[1]][1]
        if arg[0] == "id":
            return arg[1]
        return repr(arg)

    # -- pures -----------------------------------------------------------
    def tagarg(self, x, cenv):
        """Non-arithmetic macro argument -> 16-bit tag, or None if it is a pure."""
        D = self.D
        if x[0] == "id" and x[1] not in cenv and x[1] not in ("IL_TRUE", "IL_FALSE"):
            return D.bv(16, tag16(x[1]))  # C constant / enum / hi / pkt / bundle
        if x[0] in ("id", "addr") and x[1] in cenv:
            kind, tt = cenv[x[1]]
            if kind in ("op", "opval"):
                return D.bv(16, tag16(str(self.op_ident(x, cenv))))
            if kind == "cval":
                return D.bv(16, tag16(tt))
            if kind.startswith("cvar"):
                return D.bv(16, tag16(x[1]))
        return None

    def pure(self, t, st, pc, cenv, lets):
        D = self.D
        self.stats["nodes"] += 1
        k = t[0]
        if k == "id":
            if t[1] == "IL_TRUE":
                return D.true
            if t[1] == "IL_FALSE":
                return D.false
            if t[1] not in cenv:
                raise ILSyntaxError(f"undeclared identifier {t[1]}")
            kind, term = cenv[t[1]]
            if kind == "pureval":
                return term
            if kind == "pureclosure":
                return self.pure(term[0], st, pc, term[1], {})
            if kind != "pure":
                raise ILSortError(f"{t[1]} used as pure but is {kind}")
            return self.pure(term, st, pc, cenv, lets)
        if k != "call":
            raise ILSortError(f"not a pure: {t}")
        n, a = t[1], t[2]
        P = lambda x: self.pure(x, st, pc, cenv, lets)  # noqa: E731

        def bvarg(x, what):
            v = P(x)
            if not D.is_bv(v):
                raise ILSortError(f"{what}: expected bitvector, got bool")
            return v

        def boolarg(x, what):
            v = P(x)
            if not D.is_bool(v):
                raise ILSortError(f"{what}: expected bool, got bitvector")
            return v

        def two(what):
            if len(a) != 2:
                raise ILSyntaxError(f"{what} arity")
            x, y = bvarg(a[0], what), bvarg(a[1], what)
            if D.size(x) != D.size(y):
                raise ILSortError(f"{what}: width mismatch {D.size(x)} vs {D.size(y)}")
            return x, y

        if n == "DUP":
            return P(a[0])
        if n in ("SN", "UN"):
            if len(a) != 2 or a[0][0] != "num":
                raise ILSyntaxError(f"{n} arity")
            w = a[0][1]
            if w <= 0:
                raise ILSortError(f"{n} width {w}")
            if a[1][0] == "num":
                return D.bv(w, a[1][1])
            if a[1][0] == "ccast" and a[1][2][0] == "call" and a[1][2][1] == "ISA2IMM":
                if w != 32:
                    raise ModelGap("immediate width")
                # contract: ISA2IMM yields the instruction's immediate; the C cast only fixes C-level sign
                return self.env.imm(a[1][2][2][1][1])
            raise ModelGap(f"{n} argument {a[1]}")
        if n == "U32" and a and a[0] == ("arrow", "pkt", "pkt_addr"):
            return self.env.pkt_addr()
        if n == "VARL":
            name = a[0][1]
            if name not in st.locals:
                raise ILUninit(name)
            st.obligations.append((D.band(pc, D.bnot(st.linit[name])), f"local {name} read before written"))
            return st.locals[name]
        if n == "VARLP":
            if a[0][1] not in lets:
                raise ILSortError(f"VARLP {a[0][1]} outside a binding LET")
            return lets[a[0][1]]
        if n == "LET":
            l2 = dict(lets)
            l2[a[0][1]] = P(a[1])
            return self.pure(a[2], st, pc, cenv, l2)
        if n == "READ_REG":
            if len(a) != 3:
                raise ILSyntaxError("READ_REG arity")
            ident = self.op_ident(a[1], cenv)
            new = a[2] == ("id", "true")
            if not new and a[2] != ("id", "false"):
                raise ILSyntaxError("READ_REG new flag")
            return st.read_reg(ident, new)
        if n == "LOADW":
            return st.load(P(a[1]), a[0][1])
        if n in ("ADD", "SUB", "MUL", "LOGAND", "LOGOR", "LOGXOR", "DIV", "MOD"):
            x, y = two(n)
            w = D.size(x)
            if n == "DIV":
                return D.ite(D.eq(y, D.bv(w, 0)), D.bv(w, -1), D.udiv(x, y))
            if n == "MOD":
                return D.ite(D.eq(y, D.bv(w, 0)), x, D.urem(x, y))
            return {"ADD": D.add, "SUB": D.sub, "MUL": D.mul, "LOGAND": D.and_, "LOGOR": D.or_,
                    "LOGXOR": D.xor}[n](x, y)
        if n in ("NEG", "LOGNOT"):
            x = bvarg(a[0], n)
            return D.neg(x) if n == "NEG" else D.not_(x)
        if n in ("SHIFTL0", "SHIFTR0", "SHIFTRA"):
            x, y = bvarg(a[0], n), bvarg(a[1], n)
            w, m = D.size(x), D.size(y)
            if m < w:
                amt, big = D.zext(w - m, y), D.false
            elif m == w:
                amt, big = y, D.false
            else:
                amt, big = D.extract(w - 1, 0, y), D.uge(y, D.bv(m, w))
            ok = D.band(D.bnot(big), D.ult(amt, D.bv(w, w)))
            if n == "SHIFTL0":
                return D.ite(ok, D.shl(x, amt), D.bv(w, 0))
            if n == "SHIFTR0":
                return D.ite(ok, D.lshr(x, amt), D.bv(w, 0))
            return D.ite(ok, D.ashr(x, amt), D.ite(D.msb(x), D.bv(w, -1), D.bv(w, 0)))
        if n == "CAST":
            if len(a) != 3 or a[0][0] != "num":
                raise ILSyntaxError("CAST arity")
            fill_t = a[1]
            x = bvarg(a[2], "CAST")
            return self.cast(a[0][1], fill_t, x, st, pc, cenv, lets)
        if n in ("SIGNED", "UNSIGNED"):
            x = bvarg(a[1], n)
            w, m = a[0][1], D.size(x)
            if w <= m:
                return x if w == m else D.extract(w - 1, 0, x)
            return D.sext(w - m, x) if n == "SIGNED" else D.zext(w - m, x)
        if n == "MSB":
            return D.msb(bvarg(a[0], n))
        if n == "NON_ZERO":
            return D.nonzero(bvarg(a[0], n))
        if n == "IS_ZERO":
            return D.bnot(D.nonzero(bvarg(a[0], n)))
        if n == "INV":
            return D.bnot(boolarg(a[0], n))
        if n in ("AND", "OR", "XOR"):
            x, y = boolarg(a[0], n), boolarg(a[1], n)
            if n == "XOR":
                return D.bnot(D.eq(x, y)) if D.symbolic else (x != y)
            return D.band(x, y) if n == "AND" else D.bor(x, y)
        if n == "ITE":
            if len(a) != 3:
                raise ILSyntaxError("ITE arity")
            c = boolarg(a[0], "ITE condition")
            x, y = P(a[1]), P(a[2])
            if not D.same_sort(x, y):
                raise ILSortError(f"ITE arms {D.sort_name(x)} vs {D.sort_name(y)}")
            return D.ite(c, x, y)
        if n in ("EQ", "SLT", "SLE", "SGT", "SGE", "ULT", "ULE", "UGT", "UGE"):
            x, y = two(n)
            return {"EQ": D.eq, "SLT": D.slt, "SLE": D.sle, "SGT": D.sgt, "SGE": D.sge, "ULT": D.ult,
                    "ULE": D.ule, "UGT": D.ugt, "UGE": D.uge}[n](x, y)
        if n in ("INC", "DEC"):
            x = bvarg(a[0], n)
            if a[1][0] != "num" or a[1][1] != D.size(x):
                raise ILSortError(f"{n} width {a[1]} vs {D.size(x)}")
            one = D.bv(D.size(x), 1)
            return D.add(x, one) if n == "INC" else D.sub(x, one)
        # ---- floats: bit patterns + shared uninterpreted functions
        if n == "BV2F":
            x = bvarg(a[1], n)
            fmt = a[0][1] if a[0][0] == "id" else repr(a[0])
            want = {"RZ_FLOAT_IEEE754_BIN_32": 32, "RZ_FLOAT_IEEE754_BIN_64": 64}.get(fmt)
            if want is None:
                raise ModelGap(f"float format {fmt}")
            if want != D.size(x):
                raise ILSortError(f"BV2F {fmt} applied to {D.size(x)}-bit value")
            return x
        if n == "F2BV":
            return bvarg(a[0], n)
        if n in FLOAT_BIN:
            rm = self.tagarg(a[0], cenv) if a[0][0] != "call" else D.bv(16, tag16(a[0][1]))
            x, y = bvarg(a[1], n), bvarg(a[2], n)
            if D.size(x) != D.size(y):
                raise ILSortError(f"{n}: width mismatch")
            return D.uf(n, [rm, x, y], D.size(x))
        if n in FLOAT_CMP:
            x, y = two(n)
            return D.nonzero(D.uf(n, [x, y], 1))
        if n == "IS_INF":
            return D.nonzero(D.uf(n, [bvarg(a[0], n)], 1))
        if n in MACRO_RET:
            args = []
            for x in a:
                if x[0] == "call" and x[1] == "HEX_GET_INSN_RMODE":
                    args.append(D.bv(16, tag16("HEX_GET_INSN_RMODE")))
                    continue
                tg = self.tagarg(x, cenv)
                args.append(tg if tg is not None else bvarg(x, n))
            if n in MACRO_ARGW:
                if len(args) != len(MACRO_ARGW[n]):
                    raise ILSyntaxError(f"{n} arity")
                for x, w in zip(args, MACRO_ARGW[n]):
                    if D.size(x) != w:
                        raise ILSortError(f"{n}: argument width {D.size(x)} != {w}")
                self.defined.append(D.implies(pc, macro_defined(D, n, args)))
            r = macro_sem(D, n, args)
            if r is not None:
                return r
            return D.uf(n, args, MACRO_RET[n])
        raise ModelGap(f"pure {n}")

    def cast(self, w, fill_t, x, st, pc, cenv, lets):
        D = self.D
        n = D.size(x)
        if w <= 0:
            raise ILSortError(f"CAST width {w}")
        fill = self.pure(fill_t, st, pc, cenv, lets)
        if not D.is_bool(fill):
            raise ILSortError("CAST fill is not a bool")
        if w == n:
            return x
        if w < n:
            return D.extract(w - 1, 0, x)
        if D.is_false(fill):
            return D.zext(w - n, x)
        if D.is_true(fill):
            return D.concat(D.bv(w - n, -1), x)
        if D.symbolic:
            if fill.eq(D.msb(x)):
                return D.sext(w - n, x)
            return D.concat(D.ite(fill, D.bv(w - n, -1), D.bv(w - n, 0)), x)
        return D.concat(D.bv(w - n, -1 if fill else 0), x)
