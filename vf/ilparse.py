"""Prototype: parse the C body text emitted by rzil-compiler into an effect term tree.
Terms: ('call', name, [args]) | ('id', name) | ('num', int) | ('str', s) | ('chr', c) |
       ('addr', name) | ('ccast', ctype, term) | ('arrow', base, field)
"""
import re

TOK = re.compile(r"""
    (?P<ws>\s+)
  | (?P<num>0[xX][0-9a-fA-F]+|\d+)
  | (?P<id>[A-Za-z_][A-Za-z_0-9]*)
  | (?P<str>"(?:[^"\\]|\\.)*")
  | (?P<chr>'(?:[^'\\]|\\.)')
  | (?P<arrow>->)
  | (?P<p>[()\[\],;=*&{}\-])
""", re.X)


class ILSyntaxError(Exception):
    pass


def strip_comments(text):
    return "\n".join(l.split("//", 1)[0] for l in text.split("\n"))


def tokenize(text):
    pos = 0
    out = []
    while pos < len(text):
        m = TOK.match(text, pos)
        if not m:
            raise ILSyntaxError(f"bad char {text[pos:pos+20]!r}")
        pos = m.end()
        k = m.lastgroup
        if k == "ws":
            continue
        out.append((k, m.group()))
    return out


class P:
    def __init__(self, toks):
        self.t = toks
        self.i = 0

    def peek(self, o=0):
        return self.t[self.i + o] if self.i + o < len(self.t) else ("eof", "")

    def eat(self, v=None, k=None):
        tk = self.peek()
        if (v is not None and tk[1] != v) or (k is not None and tk[0] != k):
            raise ILSyntaxError(f"expected {v or k} got {tk} at {self.i}")
        self.i += 1
        return tk

    def expr(self):
        k, v = self.peek()
        if v == "(":
            # C cast: (st32) expr  / (ut8) expr
            self.eat("(")
            ty = self.eat(k="id")[1]
            self.eat(")")
            return ("ccast", ty, self.expr())
        if v == "&":
            self.eat("&")
            return ("addr", self.eat(k="id")[1])
        if v == "-":
            self.eat("-")
            e = self.expr()
            if e[0] != "num":
                raise ILSyntaxError("neg of non-number")
            return ("num", -e[1])
        if k == "num":
            self.eat()
            return ("num", int(v, 0))
        if k == "str":
            self.eat()
            return ("str", v[1:-1])
        if k == "chr":
            self.eat()
            return ("chr", v[1:-1])
        if k == "id":
            self.eat()
            if self.peek()[1] == "(":
                self.eat("(")
                args = []
                if self.peek()[1] != ")":
                    args.append(self.expr())
                    while self.peek()[1] == ",":
                        self.eat(",")
                        args.append(self.expr())
                self.eat(")")
                return ("call", v, args)
            if self.peek()[0] == "arrow":
                self.eat()
                return ("arrow", v, self.eat(k="id")[1])
            return ("id", v)
        raise ILSyntaxError(f"unexpected {k} {v}")


DECL_KINDS = {
    ("RzILOpPure", "*"): "pure",
    ("RzILOpBool", "*"): "pure",
    ("RzILOpEffect", "*"): "effect",
}


def parse_body(text):
    """Returns (decls, ret) where decls = [(kind, name, term)] in order, ret = term."""
    toks = tokenize(strip_comments(text))
    p = P(toks)
    decls = []
    ret = None
    while p.peek()[0] != "eof":
        k, v = p.peek()
        if v == "return":
            p.eat()
            ret = p.expr()
            p.eat(";")
            if p.peek()[0] != "eof":
                raise ILSyntaxError("code after return")
            break
        if v == "const":
            p.eat()
            ty = p.eat(k="id")[1]
            ptr = False
            if p.peek()[1] == "*":
                p.eat()
                ptr = True
            name = p.eat(k="id")[1]
            p.eat("=")
            e = p.expr()
            p.eat(";")
            decls.append(("op" if ty == "HexOp" else "cvar:" + ty, name, e, ptr))
            continue
        ty = p.eat(k="id")[1]
        ptr = False
        if p.peek()[1] == "*":
            p.eat()
            ptr = True
        name = p.eat(k="id")[1]
        p.eat("=")
        e = p.expr()
        p.eat(";")
        kind = DECL_KINDS.get((ty, "*" if ptr else ""), "cvar:" + ty)
        decls.append((kind, name, e, ptr))
    if ret is None:
        raise ILSyntaxError("no return")
    return decls, ret


SUB_HDR = re.compile(r"^RZ_OWN RzILOpEffect \*(\w+)\((.*?)\)\{\n", re.S)


def parse_subroutine(text):
    m = SUB_HDR.match(text)
    if not m or not text.rstrip().endswith("}"):
        raise ILSyntaxError("bad sub-routine header")
    name = m.group(1)
    params = []
    for p in m.group(2).split(","):
        p = p.strip()
        pm = re.match(r"^(.*?)(\w+)$", p)
        params.append((pm.group(1).strip(), pm.group(2)))
    body = text[m.end(): text.rstrip().rfind("}")]
    decls, ret = parse_body(body)
    return name, params, decls, ret
