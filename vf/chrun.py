"""Runs CrossHair on the functions of a harness module and turns its verdicts into report items.

Confirmed over all paths -> ok (holds for all argument values within the stated bounds);
counterexample -> re-run in plain CPython, reported only if it reproduces;
Not confirmed / Unable to meet precondition / timeout -> inconclusive (never a pass).
Functions whose name ends in _twin carry `return False`: they must be refuted (vacuity guard).
"""
import ast
import importlib.util
import os
import re
import subprocess
import sys
import time
from concurrent.futures import ThreadPoolExecutor


def functions_with_contracts(path):
    with open(path) as f:
        tree = ast.parse(f.read())
    out = []
    for node in tree.body:
        if isinstance(node, ast.FunctionDef):
            doc = ast.get_docstring(node) or ""
            if "post:" in doc:
                out.append((node.name, node.lineno))
    return out


def _run_one(path, name, line, timeout_s, env):
    t0 = time.time()
    cmd = [sys.executable, "-m", "crosshair", "check", "--report_all", "--per_condition_timeout", str(timeout_s),
           "--per_path_timeout", str(max(5, timeout_s // 4)), f"{path}:{line + 1}"]
    try:
        p = subprocess.run(cmd, stdout=subprocess.PIPE, stderr=subprocess.STDOUT, timeout=timeout_s * 3 + 60, env=env, cwd=os.environ.get("VERIF_REPO", "/repo"))
        out = p.stdout.decode(errors="replace")
    except subprocess.TimeoutExpired:
        out = "TIMEOUT"
    return name, out, time.time() - t0


def run_harness(path, timeout_s=60, extra_env=None, thorough=True):
    """-> list of dict(name, verdict in confirmed|counterexample|inconclusive, detail, call, time)"""
    env = dict(os.environ)
    env["PYTHONPATH"] = "/verif" + (":" + env["PYTHONPATH"] if env.get("PYTHONPATH") else "")
    if os.environ.get("VERIF_REPO"):
        env["PYTHONPATH"] = os.environ["VERIF_REPO"] + ":" + env["PYTHONPATH"]
    env.update(extra_env or {})
    fns = [(n, l) for n, l in functions_with_contracts(path) if thorough or not n.endswith("_thorough")]
    res = []
    with ThreadPoolExecutor(max_workers=min(16, len(fns) or 1)) as ex:
        futs = [ex.submit(_run_one, path, n, l, timeout_s, env) for n, l in fns]
        for f in futs:
            name, out, dt = f.result()
            lines = [l for l in out.splitlines() if re.search(r": (info|error): ", l)]
            verdict, detail, call = "inconclusive", out.strip()[-300:], None
            for l in lines:
                if "Confirmed over all paths" in l:
                    verdict, detail = "confirmed", "Confirmed over all paths"
                elif ": error: " in l:
                    verdict, detail = "counterexample", l.split(": error: ", 1)[1]
                    m = re.search(r"when calling (\w+\(.*?\))(?: \(which returns| \(which raises|$)", detail)
                    call = m.group(1) if m else None
                    break
                elif "Not confirmed" in l or "Unable to meet precondition" in l:
                    verdict, detail = "inconclusive", l.split(": info: ", 1)[1]
            res.append(dict(name=name, verdict=verdict, detail=detail, call=call, time=round(dt, 1)))
    return res


def replay_call(path, call):
    """Re-run a CrossHair counterexample in plain CPython.  True if the postcondition really fails."""
    spec = importlib.util.spec_from_file_location("vf_harness_replay", path)
    mod = importlib.util.module_from_spec(spec)
    spec.loader.exec_module(mod)
    try:
        r = eval(call, dict(vars(mod)))
    except Exception as e:  # noqa - an exception outside the declared raises: set is a violation too
        return True, f"raises {type(e).__name__}: {e}"
    return (not r), f"returns {r!r}"


def report(rep, path, results, prop):
    n_conf = 0
    for r in results:
        key = f"ch:{os.path.basename(path)}:{r['name']}"
        rep.count_query(r["verdict"])
        rep.solver_time += r["time"]
        twin = r["name"].endswith("_twin")
        if twin:
            if r["verdict"] != "counterexample":
                rep.harness_error(f"vacuity twin {r['name']} was not refuted: {r['verdict']} {r['detail'][:100]}")
            else:
                rep.add(key, "ok", "twin-refuted", r["detail"][:120])
            continue
        if r["verdict"] == "confirmed":
            n_conf += 1
            rep.add(key, "ok", "confirmed", "holds over all paths / all argument values in the stated bounds")
        elif r["verdict"] == "counterexample":
            if r["call"] is None:
                rep.add(key, "inconclusive", "counterexample-unparsed", r["detail"][:300])
                continue
            ok, what = replay_call(path, r["call"])
            if ok:
                rep.add(key + ":" + r["call"], "violation", "counterexample", f"{r['call']} {what}", call=r["call"], harness=path)
            else:
                rep.harness_error(f"CrossHair counterexample does not replay in CPython: {r['call']} ({what})")
        else:
            rep.add(key, "inconclusive", "not-confirmed", r["detail"][:200])
    return n_conf
