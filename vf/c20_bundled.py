"""C20, finite bundled domain (executed, not solved): regenerate the preprocessor outputs in a scratch copy and compare
with the bundled files and with two independent C preprocessors (cpp, clang -E)."""
import os
import re
import shutil
import subprocess
import sys
import tempfile

TOK = re.compile(r"\s+|[A-Za-z_]\w*|0[xX][0-9a-fA-F]+\w*|\d+\w*|\"(?:[^\"\\]|\\.)*\"|'(?:[^'\\]|\\.)*'|>>=|<<=|\+\+|--|->|&&|\|\||<=|>=|==|!=|<<|>>|[-+*/%&|^]=|.")


def tokens(s):
    return [t for t in TOK.findall(s) if not t.isspace()]


def strip_do_while0(toks):
    """Independent removal of `do { X } while ( 0 )` wrappers on a token list (brace matching, innermost first)."""
    changed = True
    while changed:
        changed = False
        i = 0
        while i < len(toks):
            if toks[i] == "do" and i + 1 < len(toks) and toks[i + 1] == "{":
                depth, j = 0, i + 1
                while j < len(toks):
                    if toks[j] == "{":
                        depth += 1
                    elif toks[j] == "}":
                        depth -= 1
                        if depth == 0:
                            break
                    j += 1
                if j < len(toks) and toks[j + 1:j + 5] == ["while", "(", "0", ")"]:
                    toks = toks[:i] + toks[i + 2:j] + toks[j + 5:]
                    changed = True
                    continue
            i += 1
    return toks


def insn_lines(text):
    out = {}
    order = []
    for line in text.split("\n"):
        line = line.strip()
        if not line.startswith("insn("):
            continue
        inner = line[5:]
        i = inner.find(",")
        name = inner[:i].strip()
        body = inner[i + 1:].rstrip()
        if body.endswith(")"):
            body = body[:-1]
        out.setdefault(name, []).append(body.strip())
        order.append(name)
    return out, order


def regenerate(repo):
    """Run the real run_preprocess_steps() in a scratch copy outside /repo and /verif; returns dir (caller removes)."""
    d = tempfile.mkdtemp(prefix="vf_c20_")
    shutil.copytree(os.path.join(repo, "rzilcompiler"), os.path.join(d, "rzilcompiler"), ignore=shutil.ignore_patterns("__pycache__"))
    shutil.copytree(os.path.join(repo, "Resources"), os.path.join(d, "Resources"))
    subprocess.run(["git", "init", "-q", d], check=True, stdout=subprocess.DEVNULL, stderr=subprocess.DEVNULL)
    pp = os.path.join(d, "Resources/Hexagon/Preprocessor")
    for f in ("macros_patched.h", "combined.h", "shortcode_resolved.h", "shortcode_resolved_tmp.h"):
        try:
            os.remove(os.path.join(pp, f))
        except FileNotFoundError:
            pass
    code = ("import rzilcompiler.Helper as H; H.LOG_LEVEL=-1\n"
            "from rzilcompiler.Preprocessor.Hexagon.PreprocessorHexagon import PreprocessorHexagon\n"
            "from rzilcompiler.Configuration import Conf, InputFile\n"
            "PreprocessorHexagon(Conf.get_path(InputFile.HEXAGON_PP_SHORTCODE_H)).run_preprocess_steps()\n")
    env = dict(os.environ, PYTHONPATH=d)
    r = subprocess.run([sys.executable, "-c", code], cwd=d, env=env, stdout=subprocess.PIPE, stderr=subprocess.STDOUT, timeout=600)
    return d, r.returncode, r.stdout.decode(errors="replace")[-2000:]


def nolines(text):
    return "\n".join(l for l in text.split("\n") if not l.startswith("#line") and not l.startswith("# "))


def independent_cpp(combined_path, tool):
    if tool == "cpp":
        cmd = ["cpp", "-P", "-undef", "-nostdinc", combined_path]
    else:
        cmd = ["clang", "-E", "-P", "-undef", "-nostdinc", "-x", "c", combined_path]
    r = subprocess.run(cmd, stdout=subprocess.PIPE, stderr=subprocess.PIPE, timeout=300)
    return r.returncode, r.stdout.decode(errors="replace")
