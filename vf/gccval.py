"""Translator validation of the C reference semantics (vf/cref.py) against gcc.

A family program is turned into a C translation unit (operand tokens as variables, memory as a byte store with a
deterministic background, bundled/test sub-routine sources and the qemu bitops helpers as functions), compiled with
`gcc -fwrapv` and run on seeded concrete states; the final values must equal what the reference evaluator computes in
concrete mode for the same state.  A disagreement means MY reference is wrong: harness error, never a verdict.
"""
import os
import re
import subprocess
import tempfile
from .cref import lex, classify, CExec, optable, Unsupported, CSyntaxError
from .ilsem import Env, State, ModelGap
from .dom import ConcDom, CBV

PRELUDE = r'''
#include <stdint.h>
#include <stdio.h>
typedef int8_t size1s_t; typedef uint8_t size1u_t; typedef int16_t size2s_t; typedef uint16_t size2u_t;
typedef int32_t size4s_t; typedef uint32_t size4u_t; typedef int64_t size8s_t; typedef uint64_t size8u_t;
static uint32_t WA[4096]; static uint8_t WV[4096]; static int NW = 0;
static uint8_t bg(uint32_t a) { return (uint8_t)(((a * 2654435761u) >> 7) ^ (a >> 3)); }
static uint8_t rd(uint32_t a) { for (int i = NW - 1; i >= 0; i--) if (WA[i] == a) return WV[i]; return bg(a); }
static void wr(uint32_t a, uint8_t v) { WA[NW] = a; WV[NW] = v; NW++; }
static uint64_t ldn(uint32_t a, int n) { uint64_t r = 0; for (int i = 0; i < n; i++) r |= (uint64_t)rd(a + i) << (8 * i); return r; }
static void stn(uint32_t a, uint64_t v, int n) { for (int i = 0; i < n; i++) wr(a + i, (uint8_t)(v >> (8 * i))); }
#define mem_load_u8(a) ((uint8_t)ldn((a), 1))
#define mem_load_s8(a) ((int8_t)ldn((a), 1))
#define mem_load_u16(a) ((uint16_t)ldn((a), 2))
#define mem_load_s16(a) ((int16_t)ldn((a), 2))
#define mem_load_u32(a) ((uint32_t)ldn((a), 4))
#define mem_load_s32(a) ((int32_t)ldn((a), 4))
#define mem_load_u64(a) ((uint64_t)ldn((a), 8))
#define mem_load_s64(a) ((int64_t)ldn((a), 8))
#define mem_store_u8(a, v) stn((a), (uint8_t)(v), 1)
#define mem_store_s8(a, v) stn((a), (uint8_t)(int8_t)(v), 1)
#define mem_store_u16(a, v) stn((a), (uint16_t)(v), 2)
#define mem_store_s16(a, v) stn((a), (uint16_t)(int16_t)(v), 2)
#define mem_store_u32(a, v) stn((a), (uint32_t)(v), 4)
#define mem_store_s32(a, v) stn((a), (uint32_t)(int32_t)(v), 4)
#define mem_store_u64(a, v) stn((a), (uint64_t)(v), 8)
#define mem_store_s64(a, v) stn((a), (uint64_t)(int64_t)(v), 8)
static int jumpf = 0; static uint32_t jumpt = 0;
#define JUMP(x) (jumpf = 1, jumpt = (uint32_t)(x))
#define cancel_slot ((void)0)
/* qemu/bitops.h */
static inline uint32_t extract32(uint32_t value, int start, int length) { return (value >> start) & (~0U >> (32 - length)); }
static inline uint64_t extract64(uint64_t value, int start, int length) { return (value >> start) & (~0ULL >> (64 - length)); }
static inline int64_t sextract64(uint64_t value, int start, int length) { return ((int64_t)(value << (64 - length - start))) >> (64 - length); }
static inline uint32_t deposit32(uint32_t value, int start, int length, uint32_t fieldval) { uint32_t mask = (~0U >> (32 - length)) << start; return (value & ~mask) | ((fieldval << start) & mask); }
static inline uint64_t deposit64(uint64_t value, int start, int length, uint64_t fieldval) { uint64_t mask = (~0ULL >> (64 - length)) << start; return (value & ~mask) | ((fieldval << start) & mask); }
static inline uint16_t bswap16(uint16_t x) { return (uint16_t)((x << 8) | (x >> 8)); }
static inline uint32_t bswap32(uint32_t x) { return __builtin_bswap32(x); }
static inline uint64_t bswap64(uint64_t x) { return __builtin_bswap64(x); }
'''
PLAIN_SUBS = ("clz32", "clz64", "clo32", "clo64", "revbit16", "revbit32", "revbit64", "fbrev", "conv_round")


def bg(a):
    return ((((a * 2654435761) & 0xFFFFFFFF) >> 7) ^ (a >> 3)) & 0xFF


def sub_functions(subs):
    out = []
    order = [n for n in PLAIN_SUBS if n in subs] + [n for n in subs if n.startswith("vf_")]
    protos, defs = [], []
    for n in order:
        d = subs[n]
        if any("Hex" in p for p in d["params"]):
            continue
        sig = f"static {d['return_type']} {n}({', '.join(d['params']) or 'void'})"
        protos.append(sig + ";")
        defs.append(sig + " " + d["code"])
    return "\n".join(protos) + "\n" + "\n".join(defs) + "\n"


def operands(text):
    ops = {}
    for k, v in lex(text):
        if k != "id":
            continue
        try:
            info = classify(v)
        except Exception:  # noqa
            return None
        if info is None:
            continue
        if not re.fullmatch(r"[A-Za-z_]\w*", v):
            return None  # R1:0 etc. are not C identifiers
        ops[v] = info
    return ops


def supported(text):
    if re.search(r"HEX_REG_ALIAS|fcirc_add|usr_field|get_npc|REGFIELD|FLOAT|DOUBLE|fUN|trap|STORE_SLOT|bundle|pkt\b|\bu?int[124]_t\b", text):
        return False
    ops = operands(text)
    if ops is None:
        return False
    # the same register named both as value (RsV) and as new-value (RsN): two C variables in the gcc harness, one register with
    # two banks in the reference - comparable only if the program does not assign either of them
    by_ident = {}
    for tok, info in ops.items():
        if info["kind"] == "reg":
            by_ident.setdefault(info["ident"], []).append(tok)
    for toks in by_ident.values():
        if len(toks) > 1 and any(re.search(r"\b" + re.escape(t) + r"\s*(=[^=]|[-+*/%&|^]=|<<=|>>=|\+\+|--)", text) for t in toks):
            return False
    return True


def c_type(info):
    if info["kind"] == "imm":
        return "int32_t" if info["signed"] else "uint32_t"
    w = info["width"]
    return f"int{w}_t"


def make_tu(text, subs, init):
    ops = operands(text)
    decl = []
    for tok, info in sorted(ops.items()):
        decl.append(f"static {c_type(info)} {tok} = ({c_type(info)}){init[tok]}ULL;")
    decl.append("static uint32_t EA, i, j, k;")
    body = text.strip()
    prints = []
    for tok, info in sorted(ops.items()):
        prints.append(f'printf("{tok} %llx\\n", (unsigned long long)(uint{info["width"] if info["kind"] == "reg" else 32}_t){tok});')
    prints.append('printf("jump %d %x\\n", jumpf, jumpf ? jumpt : 0);')
    prints.append('for (int q = 0; q < NW; q++) { int last = 1; for (int r = q + 1; r < NW; r++) if (WA[r] == WA[q]) last = 0; '
                  'if (last) printf("mem %x %x\\n", WA[q], WV[q]); }')
    return PRELUDE + sub_functions(subs) + "\n".join(decl) + "\nint main(void) {\n" + body + "\n" + "\n".join(prints) + "\nreturn 0; }\n"


def reference_run(text, subs, macs, init):
    """The reference evaluator in concrete mode on the same initial state.  -> dict or None if the state has C-level UB."""
    ops = operands(text)
    vals = {"__mem__": bg}
    for tok, info in ops.items():
        if info["kind"] == "imm":
            vals["imm_" + info["letter"]] = init[tok]
        else:
            name = Env.ident_name(info["ident"])
            both = sum(1 for i2 in ops.values() if i2["kind"] == "reg" and i2["ident"] == info["ident"]) > 1
            if not both or not info["new"]:
                vals["old_" + name] = init[tok]
            if not both or info["new"]:
                vals["new_" + name] = init[tok]
    D = ConcDom()
    env = Env(D, optable(text, [d["code"] for d in subs.values()]), vals)
    cx = CExec(env, subs, macs, 40)
    st, fr, scope = cx.run(text, State(env))
    if not all(cx.defined):
        return None
    out = {}
    for tok, info in ops.items():
        if info["kind"] == "imm":
            v = st.imms.get(info["letter"])
            out[tok] = (v.v if v is not None else init[tok]) & 0xFFFFFFFF
        else:
            ident = info["ident"]
            w = info["width"]
            if st.regw.get(ident) is True:
                out[tok] = st.regnew[ident].v
            else:
                out[tok] = init[tok] & ((1 << w) - 1)
    out["jump"] = (1 if fr["jumpf"] else 0, fr["jumpt"].v if fr["jumpf"] else 0)
    out["mem"] = {a: v.v for a, v in st.mem.writes.items()}
    return out


def gcc_run(text, subs, init, workdir):
    src = os.path.join(workdir, "t.c")
    exe = os.path.join(workdir, "t")
    with open(src, "w") as f:
        f.write(make_tu(text, subs, init))
    r = subprocess.run(["gcc", "-O0", "-fwrapv", "-fno-strict-aliasing", "-w", "-std=gnu11", "-o", exe, src], stdout=subprocess.PIPE, stderr=subprocess.PIPE)
    if r.returncode != 0:
        return ("compile-error", r.stderr.decode()[-300:])
    r = subprocess.run([exe], stdout=subprocess.PIPE, stderr=subprocess.PIPE, timeout=20)
    out = {"mem": {}}
    for line in r.stdout.decode().split("\n"):
        p = line.split()
        if not p:
            continue
        if p[0] == "jump":
            out["jump"] = (int(p[1]), int(p[2], 16))
        elif p[0] == "mem":
            out["mem"][int(p[1], 16)] = int(p[2], 16)
        else:
            out[p[0]] = int(p[1], 16)
    return ("ok", out)


def validate_one(item):
    """item = (text, seed).  -> (status, detail)"""
    import random
    text, sd = item
    from . import corpus_run
    subs, macs, _ = corpus_run.res()
    if not supported(text):
        return ("skipped", "")
    ops = operands(text)
    rng = random.Random(sd)
    d = tempfile.mkdtemp(prefix="vf_gcc_")
    try:
        for attempt in range(6):
            init = {}
            for tok, info in ops.items():
                w = info["width"] if info["kind"] == "reg" else 32
                init[tok] = rng.choice([0, 1, (1 << w) - 1, 1 << (w - 1), (1 << (w - 1)) - 1, rng.getrandbits(w), rng.getrandbits(w) & 0x1F, rng.getrandbits(w)])
            try:
                ref = reference_run(text, subs, macs, init)
            except (Unsupported, CSyntaxError, ModelGap) as e:
                return ("skipped", str(e)[:80])
            if ref is None:
                continue  # C-level undefined behaviour in this state: outside the claim
            st, got = gcc_run(text, subs, init, d)
            if st != "ok":
                return ("skipped", "gcc: " + got[:120])
            bad = []
            for k in ref:
                if k == "mem":
                    if ref["mem"] != got["mem"]:
                        bad.append(f"mem ref={ref['mem']} gcc={got['mem']}")
                elif ref[k] != got.get(k):
                    bad.append(f"{k}: ref={ref[k]} gcc={got.get(k)}")
            if bad:
                return ("disagree", f"{text} init={init}: " + "; ".join(bad)[:400])
            return ("agree", "")
        return ("skipped", "no UB-free state found")
    finally:
        import shutil
        shutil.rmtree(d, ignore_errors=True)


def domains_agree(item):
    """Symbolic (z3) final state of BOTH texts, evaluated on a seeded concrete state, equals the concrete-domain run.
    Validates vf/dom.py (every operator has two implementations) and the executors' use of it."""
    import random
    import z3
    from . import corpus, corpus_run, tv
    from .dom import Z3Dom
    text, sd, unroll = item
    subs, macs, _ = corpus_run.res()
    if not supported(text):
        return ("skipped", "")
    c = corpus.compile_stmt(text)
    if c[0] != "ok":
        return ("skipped", "rejected")
    il = c[1]
    rng = random.Random(sd)
    optab = optable(text, [d["code"] for d in subs.values()])
    opts = tv.Opts(unroll=unroll, observe_locals=False)
    try:
        D = Z3Dom()
        env = Env(D, optab)
        cst, fr, cscope, cx = tv.run_c(D, env, text, (subs, macs), opts)
        ist, ix = tv.run_il(D, env, il, corpus_run.il_subs(), opts)
    except Exception as e:  # noqa
        return ("skipped", f"{type(e).__name__}")
    for attempt in range(6):
        vals = {"__mem__": bg}
        for name, w in env.used.items():
            vals[name] = rng.choice([0, 1, (1 << w) - 1, 1 << (w - 1), rng.getrandbits(w), rng.getrandbits(w) & 0x1F])
        subst = [(z3.BitVec(n, w), z3.BitVecVal(vals[n], w)) for n, w in env.used.items()]
        a = z3.BitVec("a!", 32)
        lam = z3.Lambda([a], z3.Extract(7, 0, z3.LShR(a * z3.BitVecVal(2654435761, 32), 7) ^ z3.LShR(a, 3)))
        subst.append((env.mem0, lam))

        def ev(t):
            return z3.simplify(z3.substitute(t, *subst))
        if not all(z3.is_true(ev(d)) for d in cx.defined + ix.defined):
            continue
        try:
            Dc, cenv, ist2, cst2, fr2, cscope2, cx2 = tv.concrete_run(text, il, corpus_run.il_subs(), (subs, macs), opts, optab, vals)
        except Exception as e:  # noqa
            return ("disagree", f"{text}: concrete run raised {type(e).__name__}: {e}")
        bad = []
        for nm, zst, cstt in (("IL", ist, ist2), ("C", cst, cst2)):
            for k in set(zst.regnew) | set(cstt.regnew):
                zw = ev(zst.regw.get(k, z3.BoolVal(False)))
                cw = cstt.regw.get(k, False)
                if z3.is_true(zw) != bool(cw):
                    bad.append(f"{nm} reg {k} written {zw} vs {cw}")
                elif cw:
                    zv = ev(zst.regnew[k])
                    if not z3.is_bv_value(zv) or zv.as_long() != cstt.regnew[k].v:
                        bad.append(f"{nm} reg {k}: z3 {zv} vs concrete {cstt.regnew[k]}")
            for addr, v in cstt.mem.writes.items():
                zv = ev(z3.Select(zst.mem, z3.BitVecVal(addr, 32)))
                if not z3.is_bv_value(zv) or zv.as_long() != v.v:
                    bad.append(f"{nm} mem[{addr:#x}]: z3 {zv} vs concrete {v}")
        if bad:
            return ("disagree", f"{text} vals={ {k: v for k, v in vals.items() if k != '__mem__'} }: " + "; ".join(bad)[:400])
        return ("agree", "")
    return ("skipped", "no UB-free state found")
