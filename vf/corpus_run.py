"""Workers that push bundled instructions through the real compiler and the TV / WF engines."""
import time
from . import corpus, tv
from .ilsem import ILSyntaxError

_res = None
_ilsubs = {}


def res():
    global _res
    if _res is None:
        _res = corpus.resources()
    return _res


def il_subs(fmt="READ_STATEMENTS"):
    if fmt not in _ilsubs:
        corpus.compiler(fmt)
        _ilsubs[fmt] = corpus.sub_defs(fmt)
    return _ilsubs[fmt]


def compile_insn(name, behs, fmt="READ_STATEMENTS", hyb=None, use_cache=True):
    """-> dict(name, behs, status: ok|parse-err|transform-exc, rzil, meta, exc)"""
    p = corpus.parse_behaviors(name, behs, use_cache=use_cache)
    if p[0] != "ok":
        return dict(name=name, behs=behs, status="parse-err", exc=p[1])
    r = corpus.transform(name, p[1], behs, fmt, hyb)
    if r[0] != "ok":
        return dict(name=name, behs=behs, status="transform-exc", exc=r[1])
    ins = r[3]
    return dict(name=name, behs=behs, status="ok", rzil=r[1], meta=r[2],
                needs_hi=[bool(x) for x in ins.needs_hi], needs_pkt=[bool(x) for x in ins.needs_pkt],
                getter=dict(ins.getter_rzil), insn_name=ins.name)


def tv_insn(item):
    """item = (name, behs, fmt, hyb, unroll, timeout_ms).  One record per part."""
    name, behs, fmt, hyb, unroll, timeout_ms = item
    subs, macs, noped = res()
    c = compile_insn(name, behs, fmt, hyb)
    if c["status"] != "ok":
        return [dict(key=f"insn:{name}", part=None, verdict=c["status"], detail=c["exc"])]
    out = []
    for i, (b, il, meta) in enumerate(zip(behs, c["rzil"], c["meta"])):
        key = f"insn:{name}/{i}"
        t0 = time.time()
        if c["insn_name"] in noped:
            ok = il.strip() == "return NOP();" and meta == ["HEX_IL_INSN_ATTR_NONE"]
            out.append(dict(key=key, verdict="noped-ok" if ok else "noped-bad", detail=il[:80], time=0.0))
            continue
        try:
            r = tv.check_pair(b, il, il_subs(fmt), (subs, macs), tv.Opts(unroll=unroll, timeout_ms=timeout_ms))
            d = r.as_dict()
        except RecursionError:
            d = dict(verdict="gap", detail="recursion limit")
        d.update(key=key, time=round(time.time() - t0, 3), c=b, fmt=fmt, hyb=hyb)
        if d["verdict"] in ("value", "sort", "syntax", "uninit"):
            d["il"] = il
        out.append(d)
    return out
