"""Workers that push bundled instructions through the real compiler and the TV / WF engines."""
import time
from . import corpus, tv
from .ilsem import ILSyntaxError

_res = None
_ilsubs = {}


def res():
    global _res
    if _res is None:
        _res = corpus.resources()
    return _res


def il_subs(fmt="READ_STATEMENTS"):
    if fmt not in _ilsubs:
        corpus.compiler(fmt)
        _ilsubs[fmt] = corpus.sub_defs(fmt)
    return _ilsubs[fmt]


def compile_insn(name, behs, fmt="READ_STATEMENTS", hyb=None, use_cache=True):
    """-> dict(name, behs, status: ok|parse-err|transform-exc, rzil, meta, exc)"""
    p = corpus.parse_behaviors(name, behs, use_cache=use_cache)
    if p[0] != "ok":
        return dict(name=name, behs=behs, status="parse-err", exc=p[1])
    r = corpus.transform(name, p[1], behs, fmt, hyb)
    if r[0] != "ok":
        return dict(name=name, behs=behs, status="transform-exc", exc=r[1])
    ins = r[3]
    return dict(name=name, behs=behs, status="ok", rzil=r[1], meta=r[2],
                needs_hi=[bool(x) for x in ins.needs_hi], needs_pkt=[bool(x) for x in ins.needs_pkt],
                getter=dict(ins.getter_rzil), insn_name=ins.name)


def tv_insn(item):
    """item = (name, behs, fmt, hyb, unroll, timeout_ms).  One record per part."""
    name, behs, fmt, hyb, unroll, timeout_ms = item
    subs, macs, noped = res()
    c = compile_insn(name, behs, fmt, hyb)
    if c["status"] != "ok":
        return [dict(key=f"insn:{name}", part=None, verdict=c["status"], detail=c["exc"])]
    out = []
    for i, (b, il, meta) in enumerate(zip(behs, c["rzil"], c["meta"])):
        key = f"insn:{name}/{i}"
        t0 = time.time()
        if c["insn_name"] in noped:
            ok = il.strip() == "return NOP();" and meta == ["HEX_IL_INSN_ATTR_NONE"]
            detail = il[:80]
            if ok:
                # an instruction on the no-op list must not have architectural effects of its own (hints/barriers are effect-free)
                eff = noped_effects(b, subs, macs)
                if eff:
                    ok, detail = False, "instruction on the no-op list has architectural effects: " + eff
            out.append(dict(key=key, verdict="noped-ok" if ok else "noped-bad", detail=detail, time=0.0, c=b))
            continue
        try:
            r = tv.check_pair(b, il, il_subs(fmt), (subs, macs), tv.Opts(unroll=unroll, timeout_ms=timeout_ms))
            d = r.as_dict()
        except RecursionError:
            d = dict(verdict="gap", detail="recursion limit")
        d.update(key=key, time=round(time.time() - t0, 3), c=b, fmt=fmt, hyb=hyb)
        if d["verdict"] in ("value", "sort", "syntax", "uninit"):
            d["il"] = il
        out.append(d)
    return out


_sigs = {}


def sub_sigs(fmt="READ_STATEMENTS"):
    from . import wf
    if fmt not in _sigs:
        _sigs[fmt] = wf.sub_signatures(corpus.compiler(fmt))
    return _sigs[fmt]


def code_identifiers(text):
    """Identifier tokens of a C text outside comments, strings and character constants (own tokenizer)."""
    import re
    out = set()
    i, n = 0, len(text)
    while i < n:
        c = text[i]
        if text.startswith("//", i):
            j = text.find("\n", i)
            i = n if j < 0 else j
        elif text.startswith("/*", i):
            j = text.find("*/", i + 2)
            i = n if j < 0 else j + 2
        elif c in "\"'":
            j = i + 1
            while j < n and text[j] != c:
                j += 2 if text[j] == "\\" else 1
            i = j + 1
        elif c.isalpha() or c == "_":
            j = i
            while j < n and (text[j].isalnum() or text[j] == "_"):
                j += 1
            out.add(text[i:j])
            i = j
        elif c.isdigit():
            j = i
            while j < n and (text[j].isalnum() or text[j] == "_"):
                j += 1
            i = j
        else:
            i += 1
    return out


def wf_insn(item):
    """item = (name, behs, fmts).  Well-formedness records for every part in every requested layout."""
    from . import wf
    from .cref import optable
    name, behs, fmts = item
    subs, macs, noped = res()
    out = []
    for fmt in fmts:
        c = compile_insn(name, behs, fmt)
        if c["status"] != "ok":
            out.append(dict(key=f"insn:{name}", fmt=fmt, verdict=c["status"], problems=[]))
            continue
        for i, (b, il) in enumerate(zip(behs, c["rzil"])):
            optab = optable(b, [d["code"] for d in subs.values()])
            probs = wf.check_body(il, optab, sub_sigs(fmt))
            ids = code_identifiers(il)
            if "hi" in ids and not c["needs_hi"][i]:
                probs.append(("c11:needs-hi", "text mentions hi but needs_hi is false"))
            if "pkt" in ids and not c["needs_pkt"][i]:
                probs.append(("c11:needs-pkt", "text mentions pkt but needs_pkt is false"))
            g = c["getter"]
            if len(g["name"]) != len(behs) or len(g["fcn_decl"]) != len(behs) or len(set(g["name"])) != len(behs):
                probs.append(("c11:getter", f"getter names {g['name']} for {len(behs)} parts"))
            elif g["name"][i] not in g["fcn_decl"][i] or not g["name"][i].isidentifier():
                probs.append(("c11:getter", f"getter {g['name'][i]} vs declaration {g['fcn_decl'][i]}"))
            out.append(dict(key=f"insn:{name}/{i}", fmt=fmt, verdict="ok", problems=probs, il=il if probs else "",
                            getter=g["name"][i], c=b, time=wf.WF_SECONDS[0]))
            wf.WF_SECONDS[0] = 0.0
    return out


def wf_subs(fmt):
    from . import wf
    subs, macs, noped = res()
    out = []
    optab = {}
    from .cref import optable
    for n, text in il_subs(fmt).items():
        optab = optable(subs[n]["code"] if n in subs else "", [])
        probs = wf.check_body(text, optab, sub_sigs(fmt), is_sub=True)
        out.append(dict(key=f"sub:{n}", fmt=fmt, verdict="ok", problems=probs, il=text if probs else "", getter=None))
    return out


def layouts_insn(item):
    """item = (name, behs, unroll, timeout_ms): both layouts of one instruction -> IL==IL query per part."""
    from .cref import optable
    name, behs, unroll, timeout_ms = item
    subs, macs, noped = res()
    a = compile_insn(name, behs, "READ_STATEMENTS")
    b = compile_insn(name, behs, "EXEC_CLASSES")
    if a["status"] != "ok" or b["status"] != "ok":
        if a["status"] != b["status"]:
            return [dict(key=f"insn:{name}", verdict="acceptance-differs", detail=f"{a['status']} vs {b['status']}")]
        return [dict(key=f"insn:{name}", verdict="both-rejected", detail="")]
    out = []
    for i, beh in enumerate(behs):
        key = f"insn:{name}/{i}"
        if a["meta"][i] != b["meta"][i]:
            out.append(dict(key=key, verdict="meta-differs", detail=f"{a['meta'][i]} vs {b['meta'][i]}", c=beh))
            continue
        if a["rzil"][i].strip() == "return NOP();" or b["rzil"][i].strip() == "return NOP();":
            same = a["rzil"][i].strip() == b["rzil"][i].strip()
            out.append(dict(key=key, verdict="equiv" if same else "value", detail="NOP body", c=beh, time=0))
            continue
        optab = optable(beh, [d["code"] for d in subs.values()])
        t0 = time.time()
        r = tv.check_il_pair(a["rzil"][i], b["rzil"][i], il_subs("READ_STATEMENTS"), il_subs("EXEC_CLASSES"), optab,
                             tv.Opts(unroll=unroll, timeout_ms=timeout_ms))
        d = r.as_dict()
        if d["verdict"] == "equiv":
            w = layout_wf(a["rzil"][i], b["rzil"][i], optab)
            if w:
                d.update(verdict="syntax", detail=w)
        d.update(key=key, c=beh, time=round(time.time() - t0, 3))
        if d["verdict"] != "equiv":
            d["il_a"], d["il_b"] = a["rzil"][i], b["rzil"][i]
        out.append(d)
    return out


def noped_effects(text, subs, macs):
    """Effects of a behaviour when unknown functions are taken as effect-free; '' if none."""
    from .cref import CExec, optable, Unsupported, CSyntaxError
    from .ilsem import Env, State, ModelGap
    from .dom import Z3Dom
    import z3
    D = Z3Dom()
    env = Env(D, optable(text, [d["code"] for d in subs.values()]))
    cx = CExec(env, subs, macs, 9)
    cx.lenient_calls = True
    try:
        st, fr, scope = cx.run(text, State(env))
    except (Unsupported, CSyntaxError, ModelGap) as e:
        return ""  # outside the reference: nothing can be said
    eff = [f"writes {k}" for k, w in st.regw.items() if not z3.is_false(z3.simplify(w))]
    if not st.mem.eq(env.mem0):
        eff.append("stores to memory")
    if not z3.is_false(z3.simplify(fr["jumpf"])):
        eff.append("jumps")
    if not z3.is_false(z3.simplify(st.cancel)):
        eff.append("cancels a slot")
    return ", ".join(eff)


WF_LAYOUT_CLAUSES = ("c11:syntax", "c11:use-before-decl", "c11:redeclared", "c10:")


def layout_wf(il_a, il_b, optab):
    """C16 'both well-formed': declaration order / single declaration / sorts of BOTH layouts ('' if fine)."""
    from . import wf
    out = []
    for fmt, il in (("READ_STATEMENTS", il_a), ("EXEC_CLASSES", il_b)):
        for cl, msg in wf.check_body(il, optab, sub_sigs(fmt)):
            if cl.startswith(WF_LAYOUT_CLAUSES):
                out.append(f"{fmt}: {cl} {msg}")
    return " ; ".join(out)[:400]
