"""Independent C11 (+QEMU conventions) reference semantics of a behaviour text.

Own lexer + precedence-climbing parser (does not read grammar.lark) and an evaluator over vf.dom
(Z3Dom: symbolic, ConcDom: concrete).  Conventions: int = 32 bit, long long = 64 bit, two's-complement
wrap-around on all arithmetic (-fwrapv), arithmetic >> on signed values.  C-undefined states (shift
count out of range, division by zero, INT_MIN / -1) produce *definedness conditions* that the queries assume.
"""
import re
from .ilsem import State, ModelGap, macro_sem, macro_defined, MACRO_RET
from .dom import tag16


class Unsupported(Exception):
    """Construct outside what the reference models as translatable -> the compiler must reject it."""


class CSyntaxError(Exception):
    pass


TOK = re.compile(r"""
   (?P<ws>\s+|/\*.*?\*/|//[^\n]*)
 | (?P<num>0[xX][0-9a-fA-F]+[uUlL]*|\d+[uUlL]*)
 | (?P<id>[A-Za-z_][A-Za-z_0-9]*(?::\d+(?:_NEW)?)?)
 | (?P<str>"(?:[^"\\]|\\.)*")
 | (?P<op>>>=|<<=|\+\+|--|->|&&|\|\||<=|>=|==|!=|<<|>>|\+=|-=|\*=|/=|%=|&=|\^=|\|=|[-+*/%&|^~!<>=?:;,(){}\[\].])
""", re.X | re.S)   # a comment is white space (C11 5.1.1.2 phase 3); '.' spans lines inside /* */


def lex(s):
    out, i = [], 0
    while i < len(s):
        m = TOK.match(s, i)
        if not m:
            raise CSyntaxError(f"bad char at {s[i:i+10]!r}")
        i = m.end()
        if m.lastgroup != "ws":
            out.append((m.lastgroup, m.group()))
    out.append(("eof", ""))
    return out


INT = (True, 32)
UINT = (False, 32)
FLOAT = ("f", 32)
DOUBLE = ("f", 64)


def is_float(t):
    return t[0] == "f"


def ctype_of(name):
    if name == "int":
        return INT
    if name == "unsigned":
        return UINT
    if name == "float":
        return FLOAT
    if name == "double":
        return DOUBLE
    if name == "bool":
        return None
    m = re.fullmatch(r"(u?)int(\d+)_t", name)
    if m and int(m.group(2)) in (1, 2, 4, 8, 16, 32, 64):  # the grammar's BIT_WIDTH set; rank = width, all below 32 promote to int
        return (m.group(1) != "u", int(m.group(2)))
    m = re.fullmatch(r"size(\d+)([us])_t", name)
    if m and int(m.group(1)) in (1, 2, 4, 8):
        return (m.group(2) == "s", int(m.group(1)) * 8)
    return None


RE_ISA = re.compile(r"^([RPCMNVQO])([a-z])(\2?)([VN])$")
RE_EXPL = re.compile(r"^([RPCMGS])(\d+)(?::(\d+))?(_NEW)?$")
RE_ALIAS = re.compile(r"^HEX_REG_ALIAS_([A-Z0-9]+?)(_NEW)?$")
RE_IMM = re.compile(r"^([rRsSuUmn])iV$")
RE_LOAD = re.compile(r"^mem_load_([su])(\d+)$")
RE_STORE = re.compile(r"^mem_store_([su])(\d+)$")
CLS = {"R": "HEX_REG_CLASS_INT_REGS", "P": "HEX_REG_CLASS_PRED_REGS", "C": "HEX_REG_CLASS_CTR_REGS",
       "M": "HEX_REG_CLASS_MOD_REGS", "N": "HEX_REG_CLASS_INT_REGS", "G": "HEX_REG_CLASS_GUEST_REGS",
       "S": "HEX_REG_CLASS_SYS_REGS"}
SRC_LETTERS, DST_LETTERS, RW_LETTERS = "stuvw", "de", "xyz"
EXPL_MAX = {"R": 31, "P": 3, "C": 31, "M": 1, "G": 31, "S": 127}  # architectural register numbers


def classify(tok):
    """Operand token -> dict or None.  Written from QEMU's hex_common.py conventions."""
    m = RE_ISA.match(tok)
    if m:
        cls, let, dbl, suffix = m.groups()
        w = {"R": 32, "C": 32, "M": 32, "N": 32, "P": 8}.get(cls)
        if w is None:
            raise Unsupported(f"register class {cls}")
        if dbl:
            if cls == "N":
                return None  # new-value operands are single registers
            w *= 2
        acc = "src" if let in SRC_LETTERS else "dst" if let in DST_LETTERS else "rw" if let in RW_LETTERS else None
        if acc is not None:
            if dbl and ((acc == "src" and let == "w") or (acc == "dst" and let == "e") or (acc == "rw" and let == "z")):
                return None  # no such pair letters in the operand syntax
            ident = ("nreg", let) if cls == "N" else ("isa", let)
            return dict(kind="reg", ident=ident, width=w, signed=True, new=(suffix == "N"), acc=acc, cls=cls)
    m = RE_ALIAS.match(tok)
    if m:
        name = m.group(1)
        w = 64 if name in ("UPCYCLE", "PKTCOUNT", "UTIMER") else 32
        return dict(kind="reg", ident=("alias", "HEX_REG_ALIAS_" + name), width=w, signed=False,
                    new=bool(m.group(2)), acc="alias", cls="alias", pc=(name == "PC" and not m.group(2)))
    m = RE_EXPL.match(tok)
    if m and int(m.group(2)) <= EXPL_MAX[m.group(1)] and (m.group(3) is None or int(m.group(3)) <= EXPL_MAX[m.group(1)]):
        cls, n1, n2, new = m.groups()
        w = 8 if cls == "P" else 32
        c = CLS[cls]
        num = int(n1)
        if n2 is not None:
            w *= 2
            num = min(int(n1), int(n2))
            c = "HEX_REG_CLASS_DOUBLE_REGS" if cls == "R" else c + "64"
        return dict(kind="reg", ident=("explicit", num, c), width=w, signed=True, new=bool(new), acc="alias",
                    cls=cls, explicit_num=num)
    m = RE_IMM.match(tok)
    if m:
        return dict(kind="imm", letter=m.group(1), signed=m.group(1) in "rRsS")
    return None


def optable(ctext, extra_texts=()):
    """Operand letter -> register width, from the behaviour's own operand tokens."""
    t = {}
    for text in (ctext,) + tuple(extra_texts):
        for m in re.finditer(r"\b([RPCM])([a-z])(\2?)[VN]\b", text):
            w = 8 if m.group(1) == "P" else 32
            if m.group(3):
                w *= 2
            t.setdefault(m.group(2), w)
    return t


class Parser:
    def __init__(self, text):
        self.t = lex(text)
        self.i = 0
        self.assigned = set()  # register tokens that are assigned somewhere
        self.features = set()
        self.pred_writes = []  # explicit predicate numbers (or -1) in order of first assignment

    def pk(self, o=0):
        return self.t[min(self.i + o, len(self.t) - 1)]

    def eat(self, v=None):
        tk = self.pk()
        if v is not None and tk[1] != v:
            raise CSyntaxError(f"expected {v!r} got {tk[1]!r} (tok {self.i})")
        self.i += 1
        return tk

    def note_pred_write(self, lhs):
        info = lhs[2]
        if info.get("cls") == "P":
            num = info.get("explicit_num", -1)
            if num not in self.pred_writes:
                self.pred_writes.append(num if 0 <= num <= 3 else -1)

    # types --------------------------------------------------------------
    def at_type(self, o=0):
        v = self.pk(o)[1]
        return v in ("const", "int", "unsigned", "signed") or (self.pk(o)[0] == "id" and ctype_of(v) is not None)

    def type(self):
        const = False
        base = None
        while True:
            v = self.pk()[1]
            if v == "const":
                const = True
                self.eat()
            elif v == "unsigned" and base is None:
                self.eat()
                if self.pk()[1] == "int":
                    self.eat()
                base = UINT
            elif v == "signed" and base is None:
                self.eat()
                if self.pk()[1] == "int":
                    self.eat()
                base = INT
            elif self.pk()[0] == "id" and ctype_of(v) and base is None:
                base = ctype_of(v)
                self.eat()
            else:
                break
        if base is None:
            raise CSyntaxError("type expected")
        if self.pk()[1] == "*":
            raise Unsupported("pointer type")
        return base, const

    # statements ----------------------------------------------------------
    def program(self):
        items = []
        while self.pk()[0] != "eof":
            items.append(self.stmt())
        if len(items) == 1 and items[0][0] == "block":
            return items[0]
        return ("block", items)

    def block_items(self):
        items = []
        while self.pk()[1] != "}":
            if self.pk()[0] == "eof":
                raise CSyntaxError("unbalanced braces")
            items.append(self.stmt())
        return items

    def stmt(self):
        k, v = self.pk()
        if v == "{":
            self.eat()
            b = self.block_items()
            self.eat("}")
            return ("block", b)
        if v == ";":
            self.eat()
            return ("empty",)
        if v == "if":
            self.features.add("if")
            self.eat()
            self.eat("(")
            c = self.expr()
            self.eat(")")
            th = self.stmt()
            el = None
            if self.pk()[1] == "else":
                self.eat()
                el = self.stmt()
            return ("if", c, th, el)
        if v == "for":
            self.eat()
            self.eat("(")
            init = self.stmt()  # decl or expr stmt (consumes ';')
            cond = None if self.pk()[1] == ";" else self.expr()
            self.eat(";")
            step = None if self.pk()[1] == ")" else self.expr()
            self.eat(")")
            return ("for", init, cond, step, self.stmt())
        if v == "while":
            self.features.add("while")
            self.eat()
            self.eat("(")
            c = self.expr()
            self.eat(")")
            return ("while", c, self.stmt())
        if v == "do":
            self.features.add("do")
            self.eat()
            b = self.stmt()
            self.eat("while")
            self.eat("(")
            c = self.expr()
            self.eat(")")
            self.eat(";")
            return ("dowhile", b, c)
        if v in ("break", "continue"):
            self.features.add(v)
            self.eat()
            self.eat(";")
            return (v,)
        if v in ("goto", "switch", "case", "default"):
            raise Unsupported(v)
        if v == "return":
            self.eat()
            e = None if self.pk()[1] == ";" else self.expr()
            self.eat(";")
            return ("return", e)
        if v == "cancel_slot":
            self.eat()
            self.eat(";")
            return ("cancel",)
        if k == "id" and RE_STORE.match(v):
            m = RE_STORE.match(v)
            self.features.add("store")
            self.eat()
            self.eat("(")
            a = self.assign()
            self.eat(",")
            d = self.assign()
            self.eat(")")
            self.eat(";")
            return ("store", m.group(1) == "s", int(m.group(2)), a, d)
        if k == "id" and self.pk(1)[1] == ":" and not classify(v):
            raise Unsupported("label")
        if self.at_type():
            ty, const = self.type()
            if self.pk()[0] != "id":
                raise CSyntaxError("declarator expected")
            name = self.eat()[1]
            if self.pk()[1] == "[":
                raise Unsupported("array declarator")
            init = None
            if self.pk()[1] == "=":
                self.eat()
                init = self.assign()
            if self.pk()[1] == ",":
                raise Unsupported("multiple declarators")
            self.eat(";")
            return ("decl", ty, const, name, init)
        e = self.expr()
        self.eat(";")
        return ("expr", e)

    # expressions -----------------------------------------------------------
    def expr(self):
        e = self.assign()
        while self.pk()[1] == ",":
            self.features.add("comma")
            self.eat()
            e = ("comma", e, self.assign())
        return e

    ASSIGN_OPS = ("=", "+=", "-=", "*=", "/=", "%=", "<<=", ">>=", "&=", "^=", "|=")

    def assign(self):
        lhs = self.cond()
        if self.pk()[1] in self.ASSIGN_OPS:
            op = self.eat()[1]
            rhs = self.assign()
            if lhs[0] == "reg":
                self.assigned.add(lhs[1])
                self.note_pred_write(lhs)
            return ("assign", op, lhs, rhs)
        return lhs

    def cond(self):
        c = self.binary(0)
        if self.pk()[1] == "?":
            self.eat()
            a = self.expr()
            self.eat(":")
            b = self.cond()
            return ("cond", c, a, b)
        return c

    LEVELS = [["||"], ["&&"], ["|"], ["^"], ["&"], ["==", "!="], ["<", ">", "<=", ">="], ["<<", ">>"], ["+", "-"],
              ["*", "/", "%"]]

    def binary(self, lvl):
        if lvl == len(self.LEVELS):
            return self.castexpr()
        a = self.binary(lvl + 1)
        while self.pk()[1] in self.LEVELS[lvl] and self.pk()[0] == "op":
            op = self.eat()[1]
            b = self.binary(lvl + 1)
            a = ("bin", op, a, b)
        return a

    def castexpr(self):
        if self.pk()[1] == "(" and self.at_type(1):
            self.eat()
            ty, _ = self.type()
            self.eat(")")
            if self.pk()[1] == "{":
                raise Unsupported("compound literal")
            return ("cast", ty, self.castexpr())
        return self.unary()

    def unary(self):
        v = self.pk()[1]
        if v in ("-", "+", "~", "!") and self.pk()[0] == "op":
            self.eat()
            return ("un", v, self.castexpr())
        if v in ("++", "--"):
            raise Unsupported("prefix inc/dec")
        if v in ("*", "&"):
            raise Unsupported("pointer op")
        if v == "sizeof":
            self.eat()
            if self.pk()[1] == "(" and self.at_type(1):
                self.eat()
                ty, _ = self.type()
                self.eat(")")
                return ("sizeof_t", ty)
            return ("sizeof_e", self.unary())
        return self.postfix()

    def postfix(self):
        e = self.primary()
        while True:
            v = self.pk()[1]
            if v == "++":
                self.eat()
                if e[0] == "reg":
                    self.assigned.add(e[1])
                    self.note_pred_write(e)
                e = ("postinc", e)
            elif v == "--":
                self.eat()
                if e[0] == "reg":
                    self.assigned.add(e[1])
                    self.note_pred_write(e)
                e = ("postdec", e)
            elif v in ("[", ".", "->"):
                raise Unsupported("array/member access")
            elif v == "(":
                raise Unsupported("call of a non-identifier")
            else:
                return e

    def primary(self):
        k, v = self.pk()
        if v == "(":
            self.eat()
            if self.pk()[1] == "{":
                self.eat()
                stmts = self.block_items()
                self.eat("}")
                self.eat(")")
                if not stmts or stmts[-1][0] != "expr":
                    raise Unsupported("statement expression without value")
                return ("stmtexpr", stmts[:-1], stmts[-1][1])
            e = self.expr()
            self.eat(")")
            return e
        if k == "str":
            self.eat()
            return ("str", v)
        if k == "num":
            self.eat()
            m = re.fullmatch(r"(0[xX][0-9a-fA-F]+|\d+)([uUlL]*)", v)
            if m.group(1)[0] == "0" and len(m.group(1)) > 1 and m.group(1)[1] not in "xX":
                raise Unsupported("octal literal")
            val = int(m.group(1), 0)
            suf = m.group(2).upper()
            hexa = v[:2].lower() == "0x"
            uns = "U" in suf
            ll = "LL" in suf
            if ("L" in suf and not ll) or suf not in ("", "U", "LL", "ULL", "LLU"):
                raise Unsupported("literal suffix")
            # C11 6.4.4.1 with int=32, long long=64
            cands = []
            if not ll:
                cands += [UINT] if uns else ([INT, UINT] if hexa else [INT])
            cands += [(False, 64)] if uns else ([(True, 64), (False, 64)] if hexa else [(True, 64)])
            for s, w in cands:
                if val < (1 << (w - 1 if s else w)):
                    return ("num", val, (s, w))
            raise Unsupported("literal too large")
        if k == "id":
            self.eat()
            if v == "JUMP":
                self.features.add("jump")
                self.eat("(")
                e = self.expr()
                self.eat(")")
                return ("jump", e)
            m = RE_LOAD.match(v)
            if m:
                self.features.add("load")
                self.eat("(")
                a = self.assign()
                self.eat(")")
                return ("load", m.group(1) == "s", int(m.group(2)), a)
            info = classify(v)
            if info and info["kind"] == "reg":
                if info["new"]:
                    self.features.add("new")
                return ("reg", v, info)
            if info and info["kind"] == "imm":
                return ("imm", info["letter"], info["signed"])
            if self.pk()[1] == "(":
                self.eat()
                args = []
                if self.pk()[1] != ")":
                    args.append(self.assign())
                    while self.pk()[1] == ",":
                        self.eat()
                        args.append(self.assign())
                self.eat(")")
                return ("call", v, args)
            return ("var", v)
        raise CSyntaxError(f"unexpected {v!r}")


# ----------------------------------------------------------------------------- evaluation


def promote(t):
    if is_float(t):
        return t
    return INT if t[1] < 32 else t


def common(a, b):
    if is_float(a) or is_float(b):
        if is_float(a) and is_float(b):
            return ("f", max(a[1], b[1]))
        raise ModelGap("mixed float/integer arithmetic")
    a, b = promote(a), promote(b)
    if a == b:
        return a
    if a[0] == b[0]:
        return (a[0], max(a[1], b[1]))
    s, u = (a, b) if a[0] else (b, a)
    if u[1] >= s[1]:
        return (False, u[1])
    return (True, s[1])


class Val:
    __slots__ = ("v", "t", "b", "D")

    def __init__(self, D, v, t, b=None):
        self.D, self.v, self.t, self.b = D, v, t, b  # b: truth value when this is an int 0/1 result

    def bvv(self):
        if self.v is None:
            D = self.D
            self.v = D.ite(self.b, D.bv(32, 1), D.bv(32, 0))
        return self.v

    def truth(self):
        if self.b is not None:
            return self.b
        if is_float(self.t):
            raise ModelGap("float used as condition")
        return self.D.nonzero(self.v)

    def to(self, tt):
        D = self.D
        ft = self.t
        if ft == tt:
            return Val(D, self.bvv(), tt)
        if is_float(ft) or is_float(tt):
            raise ModelGap("float conversion")
        v = self.bvv()
        fw, tw = ft[1], tt[1]
        if tw == fw:
            return Val(D, v, tt)
        if tw < fw:
            return Val(D, D.extract(tw - 1, 0, v), tt)
        return Val(D, D.sext(tw - fw, v) if ft[0] else D.zext(tw - fw, v), tt)


FRAME_KEYS = ("retc", "brk", "cont", "jumpf")


class CExec:
    def __init__(self, env, sub_defs, macros, unroll=9):
        self.env = env
        self.D = env.D
        self.subs = sub_defs  # name -> dict(return_type, params, code)
        self.macros = macros  # name -> dict(return_type, params, rzil_macro)
        self.unroll = unroll
        self.defined = []  # definedness conditions (no-UB), each guarded by its path condition
        self.extern_alias = {}
        self.ret_type = None
        self.features = set()
        self.stats = {"max_trip": 0}
        self.depth = 0
        self.lenient_calls = False  # True: unknown functions (cache hints, barriers) are effect-free

    def new_frame(self):
        D = self.D
        return dict(ret=None, retc=D.false, brk=D.false, cont=D.false, jumpf=D.false, jumpt=D.bv(32, 0))

    def run(self, text, st, params=None, pc=None):
        p = Parser(text)
        ast = p.program()
        if p.pk()[0] != "eof":
            raise CSyntaxError("trailing tokens")
        self.assigned = p.assigned
        self.features |= p.features
        scope = [dict(params or {})]
        fr = self.new_frame()
        st = self.stmt(ast, st, self.D.true if pc is None else pc, scope, fr)
        return st, fr, scope[0]

    # ---- lvalues ---------------------------------------------------------
    def lookup(self, name, scope):
        for s in reversed(scope):
            if name in s:
                return s
        return None

    def read_reg(self, info, tokname, st):
        """C-level meaning of an operand token (DESIGN 1.1 contract)."""
        D = self.D
        ident = info["ident"]
        t = (info["signed"], info["width"])
        env = self.env
        if info.get("pc"):
            return Val(D, env.pkt_addr(), UINT)
        cur_new = st.regnew.get(ident)
        if cur_new is None:
            cur_new = env.reg_new0(ident)
        if info["new"]:
            return Val(D, cur_new, t)
        acc = info["acc"]
        if acc == "dst":
            return Val(D, cur_new, t)
        if acc in ("src", "rw"):
            if ident in st.regw:
                return Val(D, D.ite(st.regw[ident], st.regnew[ident], env.reg_old0(ident)), t)
            return Val(D, env.reg_old0(ident), t)
        # alias / explicit: a register the behaviour assigns is a destination, otherwise a source
        base = env.reg_new0(ident) if tokname in self.assigned else env.reg_old0(ident)
        if ident in st.regw:
            return Val(D, D.ite(st.regw[ident], st.regnew[ident], base), t)
        return Val(D, base, t)

    def assign_to(self, lhs, val, st, scope):
        D = self.D
        if lhs[0] == "reg":
            info = lhs[2]
            if info.get("pc"):
                raise Unsupported("assignment to PC alias")
            t = (info["signed"], info["width"])
            v = val.to(t)
            st.write_reg(info["ident"], v.v)
            return v
        if lhs[0] == "imm":
            t = (lhs[2], 32)
            v = val.to(t)
            st.imms[lhs[1]] = v.v
            return v
        if lhs[0] == "var":
            s = self.lookup(lhs[1], scope)
            if s is None:
                # untyped special identifiers of the shortcode
                if lhs[1] in ("EA", "i", "j", "k"):
                    scope[0][lhs[1]] = [None, UINT, False]
                    s = scope[0]
                else:
                    raise Unsupported(f"assignment to undeclared {lhs[1]}")
            cell = s[lhs[1]]
            if cell[2]:
                raise Unsupported("assignment to const")
            v = val.to(cell[1])
            cell[0] = v.v
            return v
        raise Unsupported(f"lvalue {lhs[0]}")

    def read_imm(self, letter, signed, st):
        v = st.imms.get(letter)
        return Val(self.D, v if v is not None else self.env.imm(letter), (signed, 32))

    # ---- expressions -------------------------------------------------------
    def ex(self, e, st, pc, scope, fr):
        D = self.D
        k = e[0]
        if k == "num":
            return Val(D, D.bv(e[2][1], e[1]), e[2]), st
        if k == "var":
            s = self.lookup(e[1], scope)
            if s is None:
                if e[1] in ("EA", "i", "j", "k"):
                    raise ModelGap(f"read of unset special id {e[1]}")
                raise Unsupported(f"unknown identifier {e[1]}")
            cell = s[e[1]]
            if cell[0] is None:
                cell[0] = self.env.sym(f"uninit_{e[1]}_{self.depth}", cell[1][1])
            return Val(D, cell[0], cell[1]), st
        if k == "reg":
            return self.read_reg(e[2], e[1], st), st
        if k == "imm":
            return self.read_imm(e[1], e[2], st), st
        if k == "cast":
            v, st = self.ex(e[2], st, pc, scope, fr)
            return v.to(e[1]), st
        if k == "un":
            v, st = self.ex(e[2], st, pc, scope, fr)
            if e[1] == "!":
                return Val(D, None, INT, D.bnot(v.truth())), st
            if is_float(v.t):
                raise ModelGap("unary op on float")
            t = promote(v.t)
            x = v.to(t).v
            return Val(D, {"-": D.neg, "+": (lambda y: y), "~": D.not_}[e[1]](x), t), st
        if k == "bin":
            return self.binop(e, st, pc, scope, fr)
        if k == "cond":
            c, st = self.ex(e[1], st, pc, scope, fr)
            c = D.simplify(c.truth())
            sa, sb = st.copy(), st.copy()
            sca, scb = self.copy_scope(scope), self.copy_scope(scope)
            fa, fb = dict(fr), dict(fr)
            if D.symbolic or c:
                a, sa = self.ex(e[2], sa, D.band(pc, c), sca, fa)
            if D.symbolic or not c:
                b, sb = self.ex(e[3], sb, D.band(pc, D.bnot(c)), scb, fb)
            if not D.symbolic:
                # the result type needs both arm types: evaluate the other arm on scratch copies
                if c:
                    b = self.scratch(e[3], st, pc, scope, fr)
                else:
                    a = self.scratch(e[2], st, pc, scope, fr)
            t = common(a.t, b.t) if (a.t != b.t) else promote(a.t) if not is_float(a.t) else a.t
            st2 = State.merge(c, sa, sb)
            self.merge_scope(c, scope, sca, scb)
            self.merge_frame(c, fr, fa, fb)
            return Val(D, D.ite(c, a.to(t).v, b.to(t).v), t), st2
        if k == "assign":
            op, lhs = e[1], e[2]
            r, st = self.ex(e[3], st, pc, scope, fr)
            if op != "=":
                cur, st = self.ex(lhs, st, pc, scope, fr)
                r, st = self.arith(op[:-1], cur, r, st, pc)
            v = self.assign_to(lhs, r, st, scope)
            return v, st
        if k in ("postinc", "postdec"):
            cur, st = self.ex(e[1], st, pc, scope, fr)
            one = Val(D, D.bv(32, 1), INT)
            nv, st = self.arith("+" if k == "postinc" else "-", cur, one, st, pc)
            self.assign_to(e[1], nv, st, scope)
            return cur, st
        if k == "comma":
            _, st = self.ex(e[1], st, pc, scope, fr)
            return self.ex(e[2], st, pc, scope, fr)
        if k == "load":
            a, st = self.ex(e[3], st, pc, scope, fr)
            return Val(D, st.load(a.to(UINT).v, e[2]), (e[1], e[2])), st
        if k == "jump":
            a, st = self.ex(e[1], st, pc, scope, fr)
            fr["jumpf"] = D.true
            fr["jumpt"] = a.to(UINT).v
            return Val(D, D.bv(32, 0), INT), st
        if k == "stmtexpr":
            scope.append({})
            for s in e[1]:
                st = self.guarded(s, st, pc, scope, fr)
            v, st = self.ex(e[2], st, pc, scope, fr)
            scope.pop()
            return v, st
        if k == "sizeof_t":
            return Val(D, D.bv(32, e[1][1] // 8), UINT), st  # size_t taken as 32 bit unsigned
        if k == "sizeof_e":
            v = self.scratch(e[1], st, pc, scope, fr)
            return Val(D, D.bv(32, (v.t[1] + 7) // 8), UINT), st
        if k == "call":
            return self.call(e[1], e[2], st, pc, scope, fr)
        if k == "str":
            raise Unsupported("string literal")
        raise Unsupported(k)

    def scratch(self, e, st, pc, scope, fr):
        """Evaluate for the *type* only (unevaluated operand): no state change, no definedness recorded."""
        saved, self.defined = self.defined, []
        s2 = st.copy()
        s2.obligations = []
        try:
            v, _ = self.ex(e, s2, pc, self.copy_scope(scope), dict(fr))
        finally:
            self.defined = saved
        return v

    def arith(self, op, a, b, st, pc):
        D = self.D
        if is_float(a.t) or is_float(b.t):
            t = common(a.t, b.t)
            if op not in ("+", "-", "*", "/"):
                raise ModelGap("float operator")
            n = {"+": "FADD", "-": "FSUB", "*": "FMUL", "/": "FDIV"}[op]
            rm = D.bv(16, tag16("HEX_GET_INSN_RMODE"))
            if a.t != t or b.t != t:
                raise ModelGap("float widening")
            return Val(D, D.uf(n, [rm, a.v, b.v], t[1]), t), st
        if op in ("<<", ">>"):
            t = promote(a.t)
            x = a.to(t).v
            bt = promote(b.t)
            y = b.to(bt).v
            w = t[1]
            # defined only for 0 <= y < w
            ok = D.ult(y, D.bv(bt[1], w))
            self.defined.append(D.implies(pc, ok))
            amt = Val(D, y, (False, bt[1])).to((False, w)).v
            if op == "<<":
                return Val(D, D.shl(x, amt), t), st
            return Val(D, D.ashr(x, amt) if t[0] else D.lshr(x, amt), t), st
        t = common(a.t, b.t)
        x, y = a.to(t).v, b.to(t).v
        if op in ("/", "%"):
            self.defined.append(D.implies(pc, D.nonzero(y)))
            if t[0]:
                self.defined.append(D.implies(pc, D.bnot(D.band(D.eq(x, D.bv(t[1], 1 << (t[1] - 1))),
                                                            D.eq(y, D.bv(t[1], -1))))))
                r = D.sdiv(x, y) if op == "/" else D.srem(x, y)
            else:
                r = D.udiv(x, y) if op == "/" else D.urem(x, y)
            return Val(D, r, t), st
        r = {"+": D.add, "-": D.sub, "*": D.mul, "&": D.and_, "|": D.or_, "^": D.xor}[op](x, y)
        return Val(D, r, t), st

    def binop(self, e, st, pc, scope, fr):
        D = self.D
        op = e[1]
        a, st = self.ex(e[2], st, pc, scope, fr)
        if op in ("&&", "||"):
            ca = D.simplify(a.truth())
            guard = ca if op == "&&" else D.bnot(ca)
            if not D.symbolic and not guard:
                return Val(D, None, INT, ca), st
            # short circuit: rhs evaluated only if needed
            sb = st.copy()
            scb = self.copy_scope(scope)
            fb = dict(fr)
            b, sb = self.ex(e[3], sb, D.band(pc, guard), scb, fb)
            st2 = State.merge(guard, sb, st)
            self.merge_scope(guard, scope, scb, self.copy_scope(scope))
            self.merge_frame(guard, fr, fb, dict(fr))
            r = D.band(ca, b.truth()) if op == "&&" else D.bor(ca, b.truth())
            return Val(D, None, INT, r), st2
        b, st = self.ex(e[3], st, pc, scope, fr)
        if op in ("==", "!=", "<", ">", "<=", ">="):
            if is_float(a.t) or is_float(b.t):
                if a.t != b.t:
                    raise ModelGap("float comparison of different formats")
                n, x, y, neg = {"==": ("FEQ", a, b, False), "!=": ("FEQ", a, b, True), ">": ("FGT", a, b, False),
                                ">=": ("FGE", a, b, False), "<": ("FLT", a, b, False),
                                "<=": ("FLE", a, b, False)}[op]
                r = D.nonzero(D.uf(n, [x.v, y.v], 1))
                return Val(D, None, INT, D.bnot(r) if neg else r), st
            t = common(a.t, b.t)
            x, y = a.to(t).v, b.to(t).v
            s = t[0]
            r = {"==": D.eq, "!=": D.ne, "<": D.slt if s else D.ult, ">": D.sgt if s else D.ugt,
                 "<=": D.sle if s else D.ule, ">=": D.sge if s else D.uge}[op](x, y)
            return Val(D, None, INT, r), st
        return self.arith(op, a, b, st, pc)

    # ---- calls ---------------------------------------------------------------
    def tag(self, s):
        return self.D.bv(16, tag16(s))

    def call(self, name, args, st, pc, scope, fr):
        D = self.D
        if name in self.macros:
            m = self.macros[name]
            if len(args) != len(m["params"]):
                raise Unsupported("macro arity")
            zargs = []
            for a, pt in zip(args, m["params"]):
                pt0 = pt.split()[0]
                ct = ctype_of(pt0)
                if ct is None:  # external
                    if a[0] == "reg":
                        zargs.append(self.tag(str(a[2]["ident"])))
                    elif a[0] == "var":
                        zargs.append(self.tag(self.extern_alias.get(a[1], a[1])))
                    elif a[0] == "call" and a[1] == "HEX_GET_INSN_RMODE":
                        zargs.append(self.tag("HEX_GET_INSN_RMODE"))
                    else:
                        raise ModelGap("external macro argument")
                elif is_float(ct):
                    v, st = self.ex(a, st, pc, scope, fr)
                    if v.t != ct:
                        raise ModelGap("float macro argument type")
                    zargs.append(v.v)
                else:
                    v, st = self.ex(a, st, pc, scope, fr)
                    zargs.append(v.to(ct).v)
            rm = m["rzil_macro"]
            rt = ctype_of(m["return_type"])
            if rm == "HEX_SETROUND":
                # float rounding mode: outside the claim (the plugin derives it per instruction)
                return Val(D, D.bv(32, 0), ("void", 32)), st
            if rm == "BV2F":
                return Val(D, zargs[1], rt), st
            if rm == "F2BV":
                return Val(D, zargs[0], rt), st
            if rm == "IS_INF":
                return Val(D, None, INT, D.nonzero(D.uf("IS_INF", [zargs[0]], 1))), st
            if rt is None:
                raise ModelGap(f"macro {name} returns {m['return_type']}")
            self.defined.append(D.implies(pc, macro_defined(D, rm, zargs)))
            r = macro_sem(D, rm, zargs)
            if r is None:
                if rm not in MACRO_RET:
                    raise ModelGap(f"macro {rm}")
                r = D.uf(rm, zargs, MACRO_RET[rm])
                if MACRO_RET[rm] != rt[1]:
                    # declared C return type narrower/wider than the plugin macro's value
                    r = Val(D, r, (False, MACRO_RET[rm])).to((rt[0], rt[1]) if not is_float(rt) else rt).v \
                        if not is_float(rt) else r
            return Val(D, r, rt), st
        if name in self.subs:
            d = self.subs[name]
            if len(args) != len(d["params"]):
                raise Unsupported("arity")
            callee_scope = {}
            alias = {}
            for a, pdecl in zip(args, d["params"]):
                pm = re.match(r"^(.*?)(\w+)$", pdecl.strip())
                pty, pname = pm.group(1).strip(), pm.group(2)
                ct = ctype_of(pty)
                if ct is not None:
                    v, st = self.ex(a, st, pc, scope, fr)
                    callee_scope[pname] = [v.to(ct).v, ct, False]
                elif "HexOp" in pty:
                    if a[0] != "reg" or a[1] != pname:
                        raise ModelGap("by-reference register argument with a different name")
                elif a[0] == "var":
                    alias[pname] = self.extern_alias.get(a[1], a[1])
                else:
                    raise ModelGap("external argument")
            sub = CExec(self.env, self.subs, self.macros, self.unroll)
            sub.defined = self.defined
            sub.extern_alias = alias
            sub.depth = self.depth + 1
            rt = ctype_of(d["return_type"])
            sub.ret_type = rt
            st2, fr2, _ = sub.run(d["code"], st, callee_scope, pc)
            self.features |= {f for f in sub.features if f in ("load", "store", "jump")}
            fr["jumpf"], fr["jumpt"] = D.bor(fr["jumpf"], fr2["jumpf"]), D.ite(fr2["jumpf"], fr2["jumpt"], fr["jumpt"])
            if rt is None:
                return Val(D, D.bv(32, 0), ("void", 32)), st2
            if fr2["ret"] is None:
                raise ModelGap("non-void sub-routine without return")
            return Val(D, fr2["ret"], rt), st2
        if name == "STORE_SLOT_CANCELLED":
            st.cancel = D.true
            return Val(D, D.bv(32, 0), ("void", 32)), st
        if name == "get_npc":
            return Val(D, D.uf("HEX_GET_NPC", [self.tag("pkt")], 32), UINT), st
        if name == "fatal":
            return Val(D, D.bv(32, 0), ("void", 32)), st
        if name == "MEM_STORE0":
            return Val(D, D.bv(32, 0), ("void", 32)), st
        if self.lenient_calls:
            for a in args:
                _, st = self.ex(a, st, pc, scope, fr)
            return Val(D, D.bv(32, 0), ("void", 32)), st
        raise Unsupported(f"unknown function {name}")

    # ---- scope helpers -----------------------------------------------------------
    def copy_scope(self, scope):
        return [{k: list(v) for k, v in s.items()} for s in scope]

    def merge_scope(self, c, scope, sa, sb):
        D = self.D
        if D.is_true(c):
            sb = sa
        elif D.is_false(c):
            sa = sb
        for lvl, (s, a, b) in enumerate(zip(scope, sa, sb)):
            for k in set(a) | set(b):
                ca, cb = a.get(k), b.get(k)
                if ca is None or cb is None:
                    src = ca or cb
                    s[k] = list(src)
                    continue
                x, y = ca[0], cb[0]
                if x is None and y is None:
                    s[k] = list(ca)
                    continue
                if x is None:
                    x = self.env.sym(f"uninit_{k}_{self.depth}", ca[1][1])
                if y is None:
                    y = self.env.sym(f"uninit_{k}_{self.depth}", ca[1][1])
                s[k] = [D.ite(c, x, y), ca[1], ca[2]]

    def merge_frame(self, c, fr, fa, fb):
        D = self.D
        for k in FRAME_KEYS:
            fr[k] = D.simplify(D.ite(c, fa[k], fb[k]))
        fr["jumpt"] = D.ite(c, fa["jumpt"], fb["jumpt"])
        if fa["ret"] is None and fb["ret"] is None:
            fr["ret"] = None
        elif fa["ret"] is None:
            fr["ret"] = fb["ret"]
        elif fb["ret"] is None:
            fr["ret"] = fa["ret"]
        else:
            fr["ret"] = D.ite(c, fa["ret"], fb["ret"])

    # ---- statements -----------------------------------------------------------------
    def stmt(self, s, st, pc, scope, fr):
        D = self.D
        k = s[0]
        if k == "block":
            scope.append({})
            for x in s[1]:
                st = self.guarded(x, st, pc, scope, fr)
            scope.pop()
            return st
        if k == "empty":
            return st
        if k == "decl":
            _, ty, const, name, init = s
            v = None
            if init is not None:
                val, st = self.ex(init, st, pc, scope, fr)
                v = val.to(ty).v
            scope[-1][name] = [v, ty, const]
            return st
        if k == "expr":
            _, st = self.ex(s[1], st, pc, scope, fr)
            return st
        if k == "if":
            c, st = self.ex(s[1], st, pc, scope, fr)
            c = D.simplify(c.truth())
            sa, sb = st.copy(), st.copy()
            sca, scb = self.copy_scope(scope), self.copy_scope(scope)
            fa, fb = dict(fr), dict(fr)
            if D.symbolic or c:
                sa = self.stmt(s[2], sa, D.band(pc, c), sca, fa)
            if s[3] is not None and (D.symbolic or not c):
                sb = self.stmt(s[3], sb, D.band(pc, D.bnot(c)), scb, fb)
            st2 = State.merge(c, sa, sb)
            self.merge_scope(c, scope, sca, scb)
            self.merge_frame(c, fr, fa, fb)
            return st2
        if k == "for":
            scope.append({})
            st = self.stmt(s[1], st, pc, scope, fr)
            st = self.loop(s[2], s[4], s[3], st, pc, scope, fr, self.unroll, True, 0)
            fr["brk"] = D.false
            scope.pop()
            return st
        if k == "while":
            st = self.loop(s[1], s[2], None, st, pc, scope, fr, self.unroll, True, 0)
            fr["brk"] = D.false
            return st
        if k == "dowhile":
            st = self.loop(s[2], s[1], None, st, pc, scope, fr, self.unroll, False, 0)
            fr["brk"] = D.false
            return st
        if k == "store":
            a, st = self.ex(s[3], st, pc, scope, fr)
            d, st = self.ex(s[4], st, pc, scope, fr)
            st.store(a.to(UINT).v, d.to((s[1], s[2])).v)
            return st
        if k == "cancel":
            return st
        if k == "return":
            if s[1] is not None:
                v, st = self.ex(s[1], st, pc, scope, fr)
                if self.ret_type is None:
                    raise Unsupported("return with a value outside a value-returning sub-routine")
                fr["ret"] = v.to(self.ret_type).v
            fr["retc"] = D.true
            return st
        if k == "break":
            fr["brk"] = D.true
            return st
        if k == "continue":
            fr["cont"] = D.true
            return st
        raise Unsupported(k)

    def stopped(self, fr):
        return self.D.simplify(self.D.bor(fr["retc"], fr["brk"], fr["cont"]))

    def guarded(self, s, st, pc, scope, fr):
        """Run statement s unless control already left this point (return / break / continue)."""
        D = self.D
        rc = self.stopped(fr)
        if D.is_false(rc):
            return self.stmt(s, st, pc, scope, fr)
        if D.is_true(rc):
            return st
        sa = st.copy()
        sca = self.copy_scope(scope)
        fa = dict(fr)
        sa = self.stmt(s, sa, D.band(pc, D.bnot(rc)), sca, fa)
        st2 = State.merge(rc, st, sa)
        self.merge_scope(rc, scope, self.copy_scope(scope), sca)
        self.merge_frame(rc, fr, dict(fr), fa)
        return st2

    def loop(self, cond, body, step, st, pc, scope, fr, k, check_first, depth):
        D = self.D
        if cond is None:
            raise Unsupported("for without condition")
        stop = D.simplify(D.bor(fr["retc"], fr["brk"]))
        if D.is_true(stop):
            return st
        if check_first:
            if D.is_false(stop):
                c, st = self.ex(cond, st, pc, scope, fr)
                c = D.simplify(c.truth())
            else:
                sa, sca, fa = st.copy(), self.copy_scope(scope), dict(fr)
                c, sa = self.ex(cond, sa, D.band(pc, D.bnot(stop)), sca, fa)
                st = State.merge(stop, st, sa)
                self.merge_scope(stop, scope, self.copy_scope(scope), sca)
                self.merge_frame(stop, fr, dict(fr), fa)
                c = D.simplify(D.band(D.bnot(stop), c.truth()))
        else:
            c = D.simplify(D.bnot(stop))
        if D.is_false(c):
            return st
        if k == 0:
            st.obligations.append((D.band(pc, c), "C unwinding bound exceeded"))
            return st
        self.stats["max_trip"] = max(self.stats["max_trip"], depth + 1)
        s1 = st.copy()
        sc1 = self.copy_scope(scope)
        f1 = dict(fr)
        pc1 = D.band(pc, c)
        s1 = self.stmt(body, s1, pc1, sc1, f1)
        f1["cont"] = D.false
        if step is not None:
            s1 = self.guarded(("expr", step), s1, pc1, sc1, f1)
        s1 = self.loop(cond, body, step, s1, pc1, sc1, f1, k - 1, True, depth + 1)
        st2 = State.merge(c, s1, st)
        self.merge_scope(c, scope, sc1, self.copy_scope(scope))
        self.merge_frame(c, fr, f1, dict(fr))
        return st2


def attributes_of(text):
    """Attribute set implied by a behaviour text alone (own parser; raises CSyntaxError/Unsupported outside it)."""
    p = Parser(text)
    p.program()
    if p.pk()[0] != "eof":
        raise CSyntaxError("trailing tokens")
    A = "HEX_IL_INSN_ATTR_"
    out = set()
    if "if" in p.features:
        out.add(A + "COND")
    if "new" in p.features:
        out.add(A + "NEW")
    if "store" in p.features:
        out.add(A + "MEM_WRITE")
    if "load" in p.features:
        out.add(A + "MEM_READ")
    if "jump" in p.features:
        out.add(A + "BRANCH")
    if p.pred_writes:
        out.add(A + "WPRED")
        for n in p.pred_writes:
            if n >= 0:
                out.add(f"{A}WRITE_P{n}")
    return out or {A + "NONE"}
