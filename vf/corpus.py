"""Corpus access: bundled behaviours, Earley parse cache, real-compiler workers.

Everything is derived from /repo's *current working tree* on every run.  The only thing cached is the
Lark parse tree of a behaviour text, keyed by sha256(grammar.lark || Parser.py || lark version || text):
any edit to the grammar or the parser glue invalidates the key.  The transformer is never cached.
"""
import hashlib
import io
import json
import os
import pickle
import sys
import contextlib

REPO = os.environ.get("VERIF_REPO", "/repo")  # VERIF_REPO: developer override to evaluate a scratch copy
CACHE = os.environ.get("VERIF_CACHE", "/verif/.cache")


def quiet_imports():
    os.chdir(REPO)
    with contextlib.redirect_stdout(io.StringIO()):
        import rzilcompiler.Helper as H
    H.LOG_LEVEL = -1


_key_prefix = None


def _prefix():
    global _key_prefix
    if _key_prefix is None:
        import lark
        h = hashlib.sha256()
        for p in ("Resources/Hexagon/grammar.lark", "rzilcompiler/Parser.py"):
            with open(os.path.join(REPO, p), "rb") as f:
                h.update(f.read())
        h.update(lark.__version__.encode())
        _key_prefix = h.digest()
    return _key_prefix


def parse_key(text):
    return hashlib.sha256(_prefix() + text.encode()).hexdigest()


def cache_get(text):
    k = parse_key(text)
    p = os.path.join(CACHE, "parse", k[:2], k + ".pkl")
    try:
        with open(p, "rb") as f:
            return pickle.load(f)
    except Exception:
        return None


def cache_put(text, obj):
    k = parse_key(text)
    d = os.path.join(CACHE, "parse", k[:2])
    os.makedirs(d, exist_ok=True)
    tmp = os.path.join(d, f".{k}.{os.getpid()}.tmp")
    with open(tmp, "wb") as f:
        pickle.dump(obj, f, protocol=pickle.HIGHEST_PROTOCOL)
    os.replace(tmp, os.path.join(d, k + ".pkl"))


_grammar = None


def grammar_text():
    global _grammar
    if _grammar is None:
        with open(os.path.join(REPO, "Resources/Hexagon/grammar.lark")) as f:
            _grammar = f.read()
    return _grammar


def parse_behaviors(name, behaviors, use_cache=True):
    """-> ('ok', [trees]) | ('err', exception name).  Cache misses go through the real parse_single()."""
    quiet_imports()
    if use_cache:
        got = [cache_get(b) for b in behaviors]
        if all(g is not None for g in got):
            if any(g[0] == "err" for g in got):
                return next(g for g in got if g[0] == "err")
            return ("ok", [g[1] for g in got])
    from rzilcompiler.Parser import parse_single, InsnParsingBundle
    res = parse_single(InsnParsingBundle(grammar_text(), name, list(behaviors)))[name]
    if res.exception is not None:
        out = ("err", res.exception.name)
        if use_cache and len(behaviors) == 1:
            cache_put(behaviors[0], out)
        return out
    if use_cache:
        for b, t in zip(behaviors, res.asts):
            cache_put(b, ("ok", t))
    return ("ok", res.asts)


def load_behaviors():
    """name -> [behaviour parts], through the real loader (split_resolved_shortcode / split_compounds)."""
    quiet_imports()
    from rzilcompiler.Preprocessor.Hexagon.PreprocessorHexagon import PreprocessorHexagon
    from rzilcompiler.Configuration import Conf, InputFile
    PreprocessorHexagon.behaviors = dict()
    pp = PreprocessorHexagon(Conf.get_path(InputFile.HEXAGON_PP_SHORTCODE_H))
    pp.load_insn_behavior()
    return dict(pp.behaviors)


def resources():
    with open(os.path.join(REPO, "Resources/Hexagon/sub_routines.json")) as f:
        subs = json.load(f)["sub_routines"]
    with open(os.path.join(REPO, "Resources/Hexagon/qemu_rzil_macros.json")) as f:
        macs = json.load(f)["macros"]
    with open(os.path.join(REPO, "Resources/Hexagon/noped_insns.json")) as f:
        noped = json.load(f)["noped"]
    subs = dict(subs)
    subs.update(EXTRA_SUBS)
    return subs, macs, noped


_compilers = {}
EXTRA_SUBS = {}  # test sub-routines registered through the public Compiler.add_sub_routine (set before forking)
EXTRA_SUBS_LATE = False  # True: register them only after other behaviours were compiled on the instance


def compiler(fmt="READ_STATEMENTS"):
    """A real Compiler of the current tree (one per layout per process)."""
    if fmt not in _compilers:
        quiet_imports()
        from rzilcompiler.Compiler import Compiler
        from rzilcompiler.ArchEnum import ArchEnum
        from rzilcompiler.Transformer.RZILTransformer import CodeFormat
        with contextlib.redirect_stdout(io.StringIO()):
            _compilers[fmt] = Compiler(ArchEnum.HEXAGON, code_format=CodeFormat[fmt])
            if EXTRA_SUBS_LATE:
                for warm in ("{ RdV = clz32(RsV) + RtV; }", "{ for (i = 0; i < 2; i++) { RdV = RdV + i; } }", "{ RdV = RsV +; }"):
                    try:
                        _compilers[fmt].compile_c_stmt(warm)
                    except Exception:  # noqa - the third one fails to parse on purpose
                        _compilers[fmt].transformer.reset()
            for n, d in EXTRA_SUBS.items():
                _compilers[fmt].add_sub_routine(n, d["return_type"], d["params"], d["code"])
    return _compilers[fmt]


def sub_defs(fmt="READ_STATEMENTS"):
    from rzilcompiler.Transformer.Hybrids.SubRoutine import SubRoutineInitType
    c = compiler(fmt)
    return {n: s.il_init(SubRoutineInitType.DEF) for n, s in c.sub_routines.items()}


def transform(name, trees, behaviors, fmt="READ_STATEMENTS", hyb=None):
    """Run the real transformer.  -> ('ok', rzil list, meta list) | ('exc', repr)."""
    from rzilcompiler.Parser import ParsedInsn
    c = compiler(fmt)
    if hyb is not None:
        c.transformer.il_ops_holder.hybrid_op_count = hyb
    try:
        r = c.transform_insn(name, ParsedInsn(name, list(trees), list(behaviors)))
        return ("ok", list(r.rzil), [list(m) for m in r.meta], r)
    except Exception as e:  # noqa: the compiler's way of rejecting
        return ("exc", f"{type(e).__name__}: {str(e)[:200]}")


def parse_stmt(code, use_cache=True):
    """Parse a snippet with the compiler's own Lark parser object (cached per grammar/text)."""
    c = compiler()
    if use_cache:
        got = cache_get("stmt:" + code)
        if got is not None:
            if got[0] == "err":
                raise ParseFailure(got[1])
            return got[1]
    try:
        ast = c.parser.parse(code)
    except Exception as e:
        if use_cache:
            cache_put("stmt:" + code, ("err", f"{type(e).__name__}: {str(e)[:200]}"))
        raise
    if use_cache:
        cache_put("stmt:" + code, ("ok", ast))
    return ast


class ParseFailure(Exception):
    pass


class _CachingParser:
    """Stands in for the compiler's Lark object: same parse(text) results, served from the parse cache.  This lets the REAL public
    entry point Compiler.compile_c_stmt run in full (whatever it does to the text before or after parsing) at cache speed."""
    def __init__(self, real, use_cache=True):
        self.real = real
        self.use_cache = use_cache

    def parse(self, text, *a, **k):
        if a or k or not self.use_cache:
            return self.real.parse(text, *a, **k)
        got = cache_get("stmt:" + text)
        if got is not None:
            if got[0] == "err":
                raise ParseFailure(got[1])
            return got[1]
        try:
            ast = self.real.parse(text)
        except Exception as e:
            cache_put("stmt:" + text, ("err", f"{type(e).__name__}: {str(e)[:200]}"))
            raise
        cache_put("stmt:" + text, ("ok", ast))
        return ast

    def __getattr__(self, name):
        return getattr(self.real, name)


def compile_stmt(code, fmt="READ_STATEMENTS", hyb=None, use_cache=True):
    """The real Compiler.compile_c_stmt (its parser object wrapped by the parse cache); always leaves the transformer reset (the
    harness, not the property under test, owns that here).  -> ('ok', text, meta) | ('exc', repr)"""
    c = compiler(fmt)
    c.transformer.reset()
    if hyb is not None:
        c.transformer.il_ops_holder.hybrid_op_count = hyb
    real_parser = c.parser
    try:
        c.parser = _CachingParser(real_parser, use_cache)
        try:
            text = c.compile_c_stmt(code)
        finally:
            c.parser = real_parser
    except Exception as e:
        c.transformer.reset()
        return ("exc", f"{type(e).__name__}: {str(e)[:200]}")
    # the attribute list is not part of compile_c_stmt's result: second pass through the transformer for the companion record
    meta = None
    try:
        c.transformer.reset()
        if hyb is not None:
            c.transformer.il_ops_holder.hybrid_op_count = hyb
        c.transformer.transform(parse_stmt(code, use_cache))
        meta = c.transformer.ext.get_meta()
    except Exception:  # noqa
        meta = []
    finally:
        c.transformer.reset()
    return ("ok", text, meta)
