"""Runs a family of snippet programs through the real compiler (compile_c_stmt path) and the TV engine."""
import hashlib
import time
from . import corpus, corpus_run, tv, framework
from .framework import load_baseline

VIOL = ("value", "sort", "syntax", "uninit")


def phash(text):
    return hashlib.sha256(text.encode()).hexdigest()[:16]


def tv_prog(item):
    """item: dict(text, fmt, hyb, unroll, timeout_ms, observe_locals, wf)"""
    from . import wf
    from .cref import optable
    text = item["text"]
    fmt = item.get("fmt", "READ_STATEMENTS")
    subs, macs, noped = corpus_run.res()
    t0 = time.time()
    hyb = item.get("hyb", 1000)  # explicit temporary-counter offset: results must not depend on worker history
    c = corpus.compile_stmt(text, fmt, hyb)
    opts = tv.Opts(unroll=item.get("unroll", 9), timeout_ms=item.get("timeout_ms", 10000),
                   observe_locals=item.get("observe_locals", True))
    rec = dict(key=f"prog:{text}" + (f" #hyb={hyb}" if hyb != 1000 else ""), c=text, fmt=fmt, hyb=hyb)
    if c[0] != "ok":
        # is the program inside what the reference can give a meaning to?
        from .cref import CExec, Unsupported, CSyntaxError
        from .ilsem import Env, State, ModelGap
        from .dom import Z3Dom
        try:
            D = Z3Dom()
            env = Env(D, optable(text, [d["code"] for d in subs.values()]))
            CExec(env, subs, macs, opts.unroll).run(text, State(env))
            rec.update(verdict="rejected", detail=c[1][:160], ref="supported")
        except (Unsupported, CSyntaxError) as e:
            rec.update(verdict="rejected", detail=c[1][:160], ref=f"unsupported: {e}")
        except Exception as e:  # noqa
            rec.update(verdict="rejected", detail=c[1][:160], ref=f"gap: {e}")
        return rec
    il = c[1]
    rec["meta"] = c[2]
    r = tv.check_pair(text, il, corpus_run.il_subs(fmt), (subs, macs), opts)
    rec.update(r.as_dict())
    if item.get("bindings") and rec["verdict"] == "equiv":
        b = binding_check(text, il)
        if b:
            rec.update(verdict="binding", detail=b)
    rec["time"] = round(time.time() - t0, 3)
    if item.get("wf", True) and il.strip() != "return NOP();":
        probs = wf.check_body(il, optable(text, [d["code"] for d in subs.values()]), corpus_run.sub_sigs(fmt))
        rec["wf"] = probs
    if rec["verdict"] != "equiv" or rec.get("wf"):
        rec["il"] = il
    return rec


def binding_check(text, il):
    """C07: the operand variables the emitted READ block declares are exactly the operands the behaviour names,
    each resolved with the .new flag of its token (independent token classification vs ISA2REG/EXPLICIT2OP/ALIAS2OP args)."""
    import re
    from .cref import lex, classify
    from .ilparse import parse_body
    want = set()
    for k, v in lex(text):
        if k == "id":
            try:
                info = classify(v)
            except Exception:  # noqa
                info = None
            if info and info["kind"] == "reg" and not info.get("pc"):
                want.add((info["ident"], bool(info["new"]) if info["ident"][0] != "nreg" else None))
    have = set()
    decls, ret = parse_body(il)
    for kind, name, term, ptr in decls:
        if kind != "op" or term[0] != "call":
            continue
        n, a = term[1], term[2]
        if n == "ISA2REG":
            have.add((("isa", a[1][1]), a[2] == ("id", "true")))
        elif n == "EXPLICIT2OP":
            have.add((("explicit", a[0][1], a[1][1]), a[2] == ("id", "true")))
        elif n == "ALIAS2OP":
            have.add((("alias", a[0][1]), a[1] == ("id", "true")))
        elif n == "NREG2OP":
            have.add((("nreg", a[1][1]), None))
    if want != have:
        return f"operands named by the behaviour {sorted(map(str, want - have))} vs operand slots resolved by the emitted code {sorted(map(str, have - want))}"
    return ""


def run_family(rep, name, programs, item_defaults=None, accept_unsupported_is_violation=True, wf_clauses=(),
               hybs=(1000,)):
    """Runs programs (once per temporary-counter offset in hybs), classifies into rep.  Returns records."""
    item_defaults = item_defaults or {}
    progs = list(dict.fromkeys(programs))
    recs = framework.pmap(tv_prog, [dict(item_defaults, text=p, hyb=h) for p in progs for h in hybs], chunksize=4)
    base = load_baseline("family_rejected.json", {})
    rejected_base = set(base.get(name, []))
    have_base = name in base
    for r in recs:
        v = r["verdict"]
        rep.count_query(v)
        rep.note_xsolver(r)
        extra = {k: r[k] for k in ("c", "il", "model", "bad", "il_final", "c_final", "fmt", "hyb", "contract_dependent")
                 if k in r}
        key = r["key"]
        wfp = [p for p in r.get("wf", []) if any(p[0].startswith(c) for c in wf_clauses)]
        if v == "equiv":
            rep.solver_time += r.get("time", 0) or 0
            if wfp:
                for cl in sorted({p[0] for p in wfp}):
                    rep.add(key, "violation", cl, " ; ".join(p[1] for p in wfp if p[0] == cl)[:300], **extra)
            else:
                rep.add(key, "ok")
        elif v in VIOL or v == "binding":
            rep.add(key, "violation", v, r.get("detail", ""), **extra)
        elif v == "rejected":
            if r.get("ref") == "supported" and have_base and phash(r["c"]) not in rejected_base:
                rep.add(key, "violation", "rejected", f"in-dialect program that used to compile is rejected: {r['detail']}", **extra)
            else:
                rep.add(key, "ok", "rejected-with-exception", r.get("ref", ""))
        elif v == "c-unsupported":
            if accept_unsupported_is_violation:
                rep.add(key, "violation", "accepted-unsupported", r.get("detail", ""), **extra)
            else:
                rep.add(key, "inconclusive", v, r.get("detail", ""))
        elif v == "harness-error":
            rep.harness_error(f"{key}: {r.get('detail')} model={r.get('model')}")
        elif wfp and "operand table conflict" not in str(r.get("detail", "")):
            # the value question is open (model gap / solver), but the emitted text is ill-formed whatever it means
            for cl in sorted({p[0] for p in wfp}):
                rep.add(key, "violation", cl, " ; ".join(p[1] for p in wfp if p[0] == cl)[:300], **extra)
        else:
            rep.add(key, "inconclusive", v, r.get("detail", ""))
    return recs


def rejected_hashes(recs):
    return sorted(phash(r["c"]) for r in recs if r["verdict"] == "rejected")
