"""Re-run one recorded violation against /repo's current tree."""
import json
from . import corpus, corpus_run, tv


def generic_replay(prop, rp):
    key = rp["key"]
    subs, macs, noped = corpus_run.res()
    if key.startswith("insn:"):
        name, _, part = key[5:].partition("/")
        B = corpus.load_behaviors()
        recs = corpus_run.tv_insn((name, B[name], rp["extra"].get("fmt", "READ_STATEMENTS"), rp["extra"].get("hyb"), 17, 60000))
        for r in recs:
            if part == "" or r["key"] == key:
                print(json.dumps({k: r[k] for k in r if k not in ("il",)}, indent=1, default=str))
                if r["verdict"] not in ("equiv", "noped-ok"):
                    print(f"REPRODUCED property={prop} {key} [{r['verdict']}]")
                    return 1
        print("not reproduced")
        return 0
    if key.startswith("prog:"):
        text = key[5:].split(" #hyb=")[0]
        c = corpus.compile_stmt(text, rp["extra"].get("fmt", "READ_STATEMENTS"), rp["extra"].get("hyb"))
        if c[0] != "ok":
            print("compiler rejects:", c[1])
            return 1 if rp["clause"] == "rejected" else 0
        r = tv.check_pair(text, c[1], corpus_run.il_subs(), (subs, macs), tv.Opts(unroll=17, timeout_ms=60000,
                                                                              observe_locals=True))
        print(json.dumps(r.as_dict(), indent=1, default=str))
        if r.verdict != "equiv":
            print(f"REPRODUCED property={prop} [{r.verdict}]")
            return 1
        return 0
    if key.startswith("struct:"):
        # C17 structural oracle: re-parse the text and its full parenthesisation with the current grammar (parse cache bypassed)
        from . import parenth
        text = rp["extra"].get("c") or key[7:]
        t2, _ = parenth.paren(text)
        a = corpus.parse_stmt(text, use_cache=False)
        b = corpus.parse_stmt(t2, use_cache=False)
        print("T        :", text)
        print("paren(T) :", t2)
        if a != b:
            print(a.pretty())
            print(b.pretty())
            print(f"REPRODUCED property={prop} {key[:80]} [structure]")
            return 1
        print("not reproduced: identical trees")
        return 0
    print("no generic replay for", key)
    return 2
