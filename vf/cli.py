"""./check <ID> [--tier quick|thorough] [--replay file]"""
import argparse
import importlib
import json
import os
import sys
import traceback


def main():
    ap = argparse.ArgumentParser()
    ap.add_argument("prop")
    ap.add_argument("--tier", default=os.environ.get("VERIF_TIER", "quick"), choices=["quick", "thorough"])
    ap.add_argument("--replay")
    a = ap.parse_args()
    os.environ["VERIF_TIER"] = a.tier  # read by modules that size second-solver budgets per tier (inherited by workers)
    os.chdir(os.environ.get("VERIF_REPO", "/repo"))
    sys.setrecursionlimit(20000)
    sys.stderr = open(os.devnull, "w") if not os.environ.get("VERIF_DEBUG") else sys.stderr
    try:
        mod = importlib.import_module(f"vf.checks.{a.prop.lower()}")
    except ImportError as e:
        print(f"HARNESS-ERROR no check for {a.prop}: {e}")
        return 2
    try:
        if a.replay:
            with open(a.replay) as f:
                rp = json.load(f)
            if not hasattr(mod, "replay"):
                from .replay import generic_replay
                return generic_replay(a.prop, rp)
            return mod.replay(rp)
        return mod.run(a.tier)
    except Exception:
        print(f"HARNESS-ERROR property={a.prop}: {traceback.format_exc()[-3000:]}")
        return 2


if __name__ == "__main__":
    sys.exit(main())
