"""C16 - both output layouts denote the same effect (IL == IL SMT query per behaviour part)."""
from .. import corpus, framework, corpus_run, tv
from ..framework import Report


def _prog_layouts(item):
    from ..cref import optable
    text, unroll, timeout_ms = item
    subs, macs, noped = corpus_run.res()
    a = corpus.compile_stmt(text, "READ_STATEMENTS")
    b = corpus.compile_stmt(text, "EXEC_CLASSES")
    key = f"prog:{text}"
    if a[0] != "ok" or b[0] != "ok":
        if a[0] != b[0]:
            return dict(key=key, verdict="acceptance-differs", detail=f"{a[0]} vs {b[0]}")
        return dict(key=key, verdict="both-rejected", detail="")
    if a[2] != b[2]:
        return dict(key=key, verdict="meta-differs", detail=f"{a[2]} vs {b[2]}")
    optab = optable(text, [d["code"] for d in subs.values()])
    r = tv.check_il_pair(a[1], b[1], corpus_run.il_subs("READ_STATEMENTS"), corpus_run.il_subs("EXEC_CLASSES"), optab,
                         tv.Opts(unroll=unroll, timeout_ms=timeout_ms))
    d = r.as_dict()
    if d["verdict"] == "equiv":
        w = corpus_run.layout_wf(a[1], b[1], optab)
        if w:
            d.update(verdict="syntax", detail=w)
    d.update(key=key, c=text)
    if d["verdict"] != "equiv":
        d["il_a"], d["il_b"] = a[1], b[1]
    return d


def run(tier):
    from ..families import layout_family
    rep = Report("C16", tier, "translation_validation")
    B = corpus.load_behaviors()
    thorough = tier == "thorough"
    unroll, timeout = 17, (60000 if thorough else 10000)
    recs = [r for rr in framework.pmap(corpus_run.layouts_insn, [(n, B[n], unroll, timeout) for n in sorted(B)],
                                       chunksize=4) for r in rr]
    progs = layout_family(tier)
    recs += framework.pmap(_prog_layouts, [(p, unroll, timeout) for p in progs], chunksize=8)
    decided = 0
    for r in recs:
        v = r["verdict"]
        rep.count_query(v)
        rep.note_xsolver(r)
        if v == "equiv":
            decided += 1
            rep.solver_time += r.get("time", 0) or 0
            rep.add(r["key"], "ok")
        elif v == "harness-error":
            rep.harness_error(f"{r['key']}: {r.get('detail')}")
        elif v == "both-rejected":
            rep.add(r["key"], "ok", "both-rejected")
        elif v in ("value", "sort", "syntax", "meta-differs", "acceptance-differs"):
            rep.add(r["key"], "violation", v, r.get("detail", ""), **{k: r[k] for k in ("c", "il_a", "il_b", "model", "bad") if k in r})
        else:
            rep.add(r["key"], "inconclusive", v, r.get("detail", ""))
    rep.coverage.update(programs=decided, disagreements_checked=sum(1 for it in rep.items if it["status"] == "violation"),
                        explanation="CodeFormat.READ_STATEMENTS vs EXEC_CLASSES on every accepted corpus part and the layout "
                                    "family: equal final registers/memory/jump/cancel/locals for all initial states, equal "
                                    "attribute lists, equal acceptance", bounds=dict(unroll=unroll, solver_timeout_ms=timeout),
                        family_programs=len(progs),
                        functions_encoded=["Compiler.transform_insn / compile_c_stmt under CodeFormat.READ_STATEMENTS and EXEC_CLASSES",
                                           "RZILTransformer.emit_read_block / emit_exec_block / emit_stmt_blocks / emit_write_block (through their output)",
                                           "ILOpsHolder ordering, Pures/Effects/Hybrids il_init_var / il_write / il_exec"])
    rep.samples = [dict(key=r["key"], verdict=r["verdict"]) for r in recs[::max(1, len(recs) // 8)]][:10]
    rep.assumptions = ["RzIL semantics of vf/ilsem.py; no C side involved (no operand-contract dependence)",
                       "compiler temporaries h_tmpN are not observables (their numbering may differ)"]
    return rep.finish({"parts proved equal": (decided, 1200)})
