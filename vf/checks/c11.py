"""C11 - see wfcommon.py / vf/wf.py."""
from . import wfcommon


def run(tier):
    from ..families import wf_family
    return wfcommon.run("C11", tier, wf_family("C11", tier))
