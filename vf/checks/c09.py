"""C09 - compile-time evaluation agrees with run-time evaluation (TV part; see c09 SHIM part in c09_shim)."""
from . import famcheck, c09_shim
from .. import families


def _post(rep, recs):
    n = c09_shim.run_all(rep)
    rep.coverage["shim_symint"] = dict(
        queries=n, explanation="the REAL simplify_unary/arithmetic/compare/conditional_expr run on SymInt operands (136-bit bit-vector "
        "backed ints; every non-negative literal value that fits the literal's type; all 4x4 literal type combinations x operators); z3 "
        "compares the folded value modulo 2^w and the result type with the C11 evaluation")


def run(tier):
    return famcheck.run(
        "C09", tier, [("c09", families.c09(tier))],
        "literal spellings dec/hex x suffix {none,U,u,LL,ll,ULL,ull} x values {2^k-1, 2^k, 2^k+1 : k in 7,8,15,16,31,32,63} u {0,1,2^64-1} "
        "in 5 contexts; every foldable operator (unary + - ~ !, binary + - * / %, six comparisons, constant-condition ?:) on 21x21 "
        "boundary literal pairs; constant ?: whose dead arm mentions registers, locals, immediates, calls, postfix operators and "
        "statement-expressions that live code before/after still uses (checked by TV and by the declared-before-use constraints); "
        "sizeof of types, variables and expressions.  Folded result observed through a signed 64-bit destination, so value and type "
        "are compared with the C11 run-time evaluation for all register contents.",
        wf_clauses=("c10:", "c11:"), post=_post)
