"""C09 - compile-time evaluation agrees with run-time evaluation (TV part; see c09 SHIM part in c09_shim)."""
from . import famcheck
from .. import families


def run(tier):
    return famcheck.run(
        "C09", tier, [("c09", families.c09(tier))],
        "literal spellings dec/hex x suffix {none,U,u,LL,ll,ULL,ull} x values {2^k-1, 2^k, 2^k+1 : k in 7,8,15,16,31,32,63} u {0,1,2^64-1} "
        "in 5 contexts; every foldable operator (unary + - ~ !, binary + - * / %, six comparisons, constant-condition ?:) on 21x21 "
        "boundary literal pairs; constant ?: whose dead arm mentions registers, locals, immediates, calls, postfix operators and "
        "statement-expressions that live code before/after still uses (checked by TV and by the declared-before-use constraints); "
        "sizeof of types, variables and expressions.  Folded result observed through a signed 64-bit destination, so value and type "
        "are compared with the C11 run-time evaluation for all register contents.",
        wf_clauses=("c10:", "c11:"))
