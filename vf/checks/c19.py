"""C19 - loading and splitting resolved shortcode loses nothing (SHIM: real functions on symbolic strings + BVRE)."""
import os
import random
import re
import time
import z3
from .. import corpus, framework, tv
from ..framework import Report
from ..shim.bvre import SymS, cls_pred, concat_eq
from ..shim.symstr import SymStr, Shim2, run_real, model_string, concrete_agrees

MARK = "__COMPOUND_PART1__"


def _pp():
    corpus.quiet_imports()
    from rzilcompiler.Preprocessor.Hexagon.PreprocessorHexagon import PreprocessorHexagon
    return PreprocessorHexagon


XT = 600000 if os.environ.get("VERIF_TIER") == "thorough" else 120000  # cvc5 time limit per re-decided query (ms)


def _xs(rep, r, what):
    """second solver: every query z3 answered unsat was re-decided by cvc5 on the SMT-LIB2 dump of the same assertions"""
    for x in r.get("cvc5", []):
        rep.count_query("cvc5:" + x.split(":")[0])
        if x == "sat":
            rep.harness_error(f"{what}: z3 answers unsat, cvc5 answers sat on the same assertions")


def q_split_line(N, name_max, newline, timeout_ms):
    """'insn(' NAME ', ' BODY ')' ['\\n']  with NAME in \\w+ and BODY any printable bytes: recovered NAME/BODY equal the inputs."""
    PP = _pp()
    s = z3.Solver()
    s.set("timeout", timeout_ms)
    line = SymS("l", N)
    s.add(*line.wf())
    ln, lb = z3.Ints("ln lb")
    tail = 2 if newline else 1
    s.add(ln >= 1, ln <= name_max, lb >= 1, line.L == 5 + ln + 2 + lb + tail)
    for k in range(N):
        for m, ch in enumerate("insn("):
            s.add(z3.Implies(z3.IntVal(m) == k, line.c[k] == ord(ch)))
        s.add(z3.Implies(z3.And(k >= 5, k < 5 + ln), cls_pred("word")(line.c[k])))
        s.add(z3.Implies(5 + ln == k, line.c[k] == ord(",")), z3.Implies(5 + ln + 1 == k, line.c[k] == ord(" ")))
        s.add(z3.Implies(z3.And(k >= 7 + ln, k < 7 + ln + lb), z3.And(line.c[k] != 10, line.c[k] >= 32, line.c[k] < 127)))
        s.add(z3.Implies(7 + ln + lb == k, line.c[k] == ord(")")))
        if newline:
            s.add(z3.Implies(8 + ln + lb == k, line.c[k] == 10))
    # (i) a shaped line always matches: the no-match branch (raise) must be infeasible
    s.push()
    shim = Shim2(s, [False], N)
    raised = False
    try:
        run_real(PP.split_resolved_shortcode, shim, SymStr([(line, z3.IntVal(0), line.L)]))
    except ValueError:
        raised = True
    r1 = str(s.check())
    x1 = tv.cvc5_decide(s.to_smt2(), XT) if r1 == "unsat" else None
    s.pop()
    # (ii) on a match, the recovered name/body are the inputs
    shim = Shim2(s, [True], N)
    name, body = run_real(PP.split_resolved_shortcode, shim, SymStr([(line, z3.IntVal(0), line.L)]))
    want_name = [(line, z3.IntVal(5), 5 + ln)]
    want_body = [(line, 7 + ln, 7 + ln + lb)]
    s.add(z3.Or(z3.Not(concat_eq(name.pieces, want_name, N)), z3.Not(concat_eq(body.pieces, want_body, N))))
    r2 = str(s.check())
    x2 = tv.cvc5_decide(s.to_smt2(), XT) if r2 == "unsat" else None
    cex = None
    if r2 == "sat":
        cex = model_string(s.model(), [(line, z3.IntVal(0), line.L)], N)
    return dict(no_match_branch=r1, no_match_raises=raised, lossless=r2, cex=cex, pattern=[p for p, _ in shim.log],
                cvc5=[x for x in (x1, x2) if x])


def q_split_compounds(N, pre_max, timeout_ms):
    """'{' PRE MARK '{' P1 '}' MARK P2 '}' with marker-free fragments: parts are '{P1}' and '{P2}', nothing lost."""
    PP = _pp()
    s = z3.Solver()
    s.set("timeout", timeout_ms)
    beh = SymS("b", N)
    s.add(*beh.wf())
    lp, l1, l2 = z3.Ints("lp l1 l2")
    M = MARK
    s.add(lp >= 0, lp <= pre_max, l1 >= 1, l2 >= 0, beh.L == 1 + lp + len(M) + 1 + l1 + 1 + len(M) + l2 + 1)
    o1 = 1 + lp
    o2 = o1 + len(M) + 1 + l1 + 1
    for k in range(N):
        s.add(z3.Implies(z3.IntVal(0) == k, beh.c[k] == ord("{")))
        for m, ch in enumerate(M):
            s.add(z3.Implies(o1 + m == k, beh.c[k] == ord(ch)), z3.Implies(o2 + m == k, beh.c[k] == ord(ch)))
        s.add(z3.Implies(o1 + len(M) == k, beh.c[k] == ord("{")), z3.Implies(o1 + len(M) + 1 + l1 == k, beh.c[k] == ord("}")))
        s.add(z3.Implies(beh.L - 1 == k, beh.c[k] == ord("}")))
        free = z3.Or(z3.And(k >= 1, k < o1), z3.And(k >= o1 + len(M) + 1, k < o1 + len(M) + 1 + l1), z3.And(k >= o2 + len(M), k < beh.L - 1))
        # free fragments: printable, no underscore (the marker cannot re-occur), no braces (trivially balanced)
        s.add(z3.Implies(free, z3.And(beh.c[k] >= 32, beh.c[k] < 127, beh.c[k] != ord("_"), beh.c[k] != ord("{"), beh.c[k] != ord("}"))))
    shim = Shim2(s, [True], N)
    p1, p2 = run_real(PP.split_compounds, shim, SymStr([(beh, z3.IntVal(0), beh.L)]))
    want1 = [(beh, o1 + len(M), o1 + len(M) + 1 + l1 + 1)]
    want2 = [("{", z3.IntVal(0), z3.IntVal(1)), (beh, o2 + len(M), beh.L - 1), ("}", z3.IntVal(0), z3.IntVal(1))]
    out = {}
    s.push()
    s.add(z3.Or(z3.Not(concat_eq(p1.pieces, want1, N)), z3.Not(concat_eq(p2.pieces, want2, N))))
    out["parts"] = str(s.check())
    out["cvc5"] = [tv.cvc5_decide(s.to_smt2(), XT)] if out["parts"] == "unsat" else []
    if out["parts"] == "sat":
        out["parts_cex"] = model_string(s.model(), [(beh, z3.IntVal(0), beh.L)], N)
    s.pop()
    # statements before the first marker belong to neither part: lost iff PRE is non-blank
    s.push()
    nonblank = z3.Or(*[z3.And(k >= 1, k < o1, beh.c[k] != 32) for k in range(N)])
    s.add(nonblank)
    out["pre_lost"] = str(s.check())
    if out["pre_lost"] == "sat":
        out["pre_cex"] = model_string(s.model(), [(beh, z3.IntVal(0), beh.L)], N)
    s.pop()
    return out


def _loader_cases(rep, PP):
    """The real load_insn_behavior() on small generated files (path supplied through a patched Conf.get_path)."""
    import os
    import tempfile
    import rzilcompiler.Preprocessor.Hexagon.PreprocessorHexagon as M
    good = ["insn(A2_x, { RdV = RsV; })", "insn(B_y, { f(1, (2)); })", "insn(C9_z, {" + MARK + "{ a; }" + MARK + " b; })"]
    want_good = {"A2_x": ["{ RdV = RsV; }"], "B_y": ["{ f(1, (2)); }"], "C9_z": ["{ a; }", "{ b; }"]}
    cases = [("plain", good, want_good, False),
             ("line-markers", ['#line 1 "x.h"', good[0], "# 3", good[1], '#line 9 "y.h"', good[2]], want_good, False),
             ("stray-text", [good[0], "garbage that is not a definition", good[1]], None, True),
             ("misspelled", [good[0], "isnn(A2_y, { })", good[1]], None, True),
             ("unresolved-macro", [good[0], "DEF_SHORTCODE(A2_y, { })"], None, True),
             ("truncated", [good[0], "insn(A2_y, { RdV = 1; }"], None, True),
             ("no-comma", ["insn(A2_y { })"], None, True)]
    # a line ends at '\n' only: characters that str.splitlines() also treats as line boundaries are ordinary body text
    for ch in ("\f", "\v", "\x1c", "\x1d", "\x1e", "\x85", "\u2028", "\u2029", "\t", "\\n"):
        body = "{ RdV = 1;" + ch + " RxV = 2; }"
        cases.append((f"body-with-{ch!r}", [good[0], f"insn(W_ws, {body})", good[1]],
                      {"A2_x": want_good["A2_x"], "W_ws": [body], "B_y": want_good["B_y"]}, False))
    # files larger than any read-buffer / size-hint a loader might use (1.3 MiB, 2.6 MiB of short lines; one 200 KiB line)
    for nm, cnt in (("big-45k-lines", 45000), ("big-90k-lines", 90000)):
        big = [f"insn(G{i}_x, {{ RdV = {i}; }})" for i in range(cnt)]
        cases.append((nm, big, {f"G{i}_x": [f"{{ RdV = {i}; }}"] for i in range(cnt)}, False))
    longbody = "{ " + "RdV = RdV + 1; " * 14000 + "}"
    cases.append(("long-line-200k", [good[0], f"insn(L_long, {longbody})", good[1]],
                  {"A2_x": want_good["A2_x"], "L_long": [longbody], "B_y": want_good["B_y"]}, False))
    n = 0
    for name, lines, want, must_raise in cases:
        n += 1
        d = tempfile.mkdtemp(prefix="vf_c19_")
        path = os.path.join(d, "resolved.h")
        with open(path, "w") as f:
            f.write("\n".join(lines) + "\n")
        saved = M.Conf.get_path
        M.Conf.get_path = staticmethod(lambda *a, **k: path)
        M.PreprocessorHexagon.behaviors = dict()
        try:
            pp = M.PreprocessorHexagon(path)
            raised = None
            try:
                pp.load_insn_behavior()
            except Exception as e:  # noqa
                raised = type(e).__name__
            got = dict(M.PreprocessorHexagon.behaviors)
        finally:
            M.Conf.get_path = staticmethod(saved)
            M.PreprocessorHexagon.behaviors = dict()
            import shutil
            shutil.rmtree(d, ignore_errors=True)
        key = f"loader:{name}"
        if must_raise:
            if raised is None:
                rep.add(key, "violation", "malformed-not-rejected", f"a file with the malformed line {lines[1] if len(lines) > 1 else lines[0]!r} "
                        f"loads without an exception (behaviours: {sorted(got)})", lines=lines)
            else:
                rep.add(key, "ok", "raises", raised)
        elif (raised is not None or got != want) and len(str(want)) > 5000:
            miss = [k for k in want if got.get(k) != want[k]]
            rep.add(key, "violation", "bundled-load", f"loader gives {raised or len(got)} of {len(want)} definitions of a {sum(map(len, lines)) + len(lines)} "
                    f"byte file; first lost or altered: {miss[:3]}")
        elif raised is not None or got != want:
            rep.add(key, "violation", "bundled-load", f"loader gives {raised or got!r}, expected {want!r}", lines=lines)
        else:
            rep.add(key, "ok")
    # a second load in the same process (class-level registry): the second file's bodies must be what is recorded afterwards
    n += 1
    d = tempfile.mkdtemp(prefix="vf_c19_")
    try:
        pa, pb = os.path.join(d, "a.h"), os.path.join(d, "b.h")
        with open(pa, "w") as f:
            f.write("insn(A2_x, { RdV = 1; })\ninsn(C9_z, {" + MARK + "{ a; }" + MARK + " b; })\ninsn(Q_only_a, { ; })\n")
        with open(pb, "w") as f:
            f.write("insn(A2_x, { RdV = 2; })\ninsn(C9_z, {" + MARK + "{ c; }" + MARK + " d; })\ninsn(A2_x2, { RdV = 3; })\n")
        saved = M.Conf.get_path
        M.PreprocessorHexagon.behaviors = dict()
        try:
            for path in (pa, pb):
                M.Conf.get_path = staticmethod(lambda *a, _p=path, **k: _p)
                M.PreprocessorHexagon(path).load_insn_behavior()
            got = dict(M.PreprocessorHexagon.behaviors)
        finally:
            M.Conf.get_path = staticmethod(saved)
            M.PreprocessorHexagon.behaviors = dict()
        want = {"A2_x": ["{ RdV = 2; }"], "C9_z": ["{ c; }", "{ d; }"], "A2_x2": ["{ RdV = 3; }"]}
        bad = {k: (got.get(k), v) for k, v in want.items() if got.get(k) != v}
        if bad:
            rep.add("loader:reload", "violation", "bundled-load", f"after loading a second resolved file in the same process: {bad}")
        else:
            rep.add("loader:reload", "ok")
    finally:
        import shutil
        shutil.rmtree(d, ignore_errors=True)
    return n


def independent_split(line):
    """Own splitter of an 'insn(NAME, BODY)' line (no regex): first '(' / first ', ' / last ')'."""
    t = line[:-1] if line.endswith("\n") else line
    if not t.startswith("insn(") or not t.endswith(")"):
        return None
    inner = t[5:-1]
    i = inner.find(", ")
    if i <= 0:
        return None
    return inner[:i], inner[i + 2:]


def run(tier):
    rep = Report("C19", tier, "other")
    thorough = tier == "thorough"
    rng = random.Random(framework.seed() + 19)
    PP = _pp()
    N = 40 if thorough else 30
    T = 600000 if thorough else 120000
    t0 = time.time()
    nq = 0
    for newline in (True, False):
        try:
            r = q_split_line(N, 8, newline, T)
        except Exception as e:  # noqa - the function under test no longer has a shape the shim can execute symbolically
            rep.add(f"shim:split_resolved_shortcode:newline={newline}", "inconclusive", "shim-not-applicable", f"{type(e).__name__}: {e}"[:200])
            continue
        nq += 2
        rep.count_query(r["no_match_branch"])
        rep.count_query(r["lossless"])
        _xs(rep, r, f"split_resolved_shortcode newline={newline}")
        key = f"shim:split_resolved_shortcode:N={N}:newline={newline}"
        if r["no_match_branch"] == "sat":
            rep.add(key + ":match", "violation", "well-formed-line-rejected", "a shaped insn(NAME, BODY) line does not match the loader's regex")
        elif r["no_match_branch"] != "unsat" or r["lossless"] not in ("sat", "unsat"):
            rep.add(key, "inconclusive", "solver", str(r))
        elif r["lossless"] == "sat":
            got = None
            try:
                got = PP.split_resolved_shortcode(r["cex"])
            except Exception as e:  # noqa
                got = repr(e)
            if got != independent_split(r["cex"]):
                rep.add(key + ":" + repr(r["cex"]), "violation", "lossy", f"line {r['cex']!r}: real function gives {got!r}, expected {independent_split(r['cex'])!r}")
            else:
                rep.harness_error(f"split_resolved_shortcode counterexample does not replay: {r['cex']!r}")
        else:
            rep.add(key, "ok", "unsat", "NAME/BODY recovered exactly for every shaped line within the bound")
        if not r["no_match_raises"]:
            rep.add(key + ":reject", "violation", "malformed-not-rejected", "the no-match branch of split_resolved_shortcode does not raise")
    Nc = 64 if thorough else 56
    try:
        r = q_split_compounds(Nc, 3, T)
    except Exception as e:  # noqa
        rep.add("shim:split_compounds", "inconclusive", "shim-not-applicable", f"{type(e).__name__}: {e}"[:200])
        r = dict(parts="skipped", pre_lost="skipped")
    nq += 2
    rep.count_query(r["parts"])
    rep.count_query(r["pre_lost"])
    _xs(rep, r, "split_compounds")
    key = f"shim:split_compounds:N={Nc}"
    if r["parts"] == "sat":
        txt = r["parts_cex"]
        got = PP.split_compounds(txt)
        rep.add(key + ":parts:" + repr(txt), "violation", "parts", f"{txt!r} -> {got!r}")
    elif r["parts"] == "skipped":
        pass
    elif r["parts"] == "unsat":
        rep.add(key + ":parts", "ok", "unsat", "both parts are exactly '{P1}' and '{P2}' within the bound")
    else:
        rep.add(key + ":parts", "inconclusive", "solver", r["parts"])
    if r["pre_lost"] == "sat":
        txt = r["pre_cex"]
        p1, p2 = PP.split_compounds(txt)
        pre = txt[1:txt.index(MARK)]
        if pre.strip() and len(p1) + len(p2) < len(txt) - 2 * len(MARK) + 1:
            rep.add("shim:split_compounds:pre-marker-text-lost", "violation", "lossy",
                    f"text between '{{' and the first part marker is in neither part: {txt!r} -> {(p1, p2)!r}", example=txt)
        else:
            rep.harness_error(f"split_compounds counterexample does not replay: {txt!r}")
    elif r["pre_lost"] not in ("unsat", "skipped"):
        rep.add(key + ":pre", "inconclusive", "solver", r["pre_lost"])
    rep.solver_time = time.time() - t0
    # finite bundled domain: every bundled line through the real loader vs the independent splitter
    import os
    path = os.path.join(corpus.REPO, "Resources/Hexagon/Preprocessor/shortcode_resolved.h")
    nlines = ncomp = 0
    B = corpus.load_behaviors()
    with open(path) as f:
        for line in f:
            if line[0] == "#":
                continue
            nlines += 1
            want = independent_split(line)
            try:
                got = PP.split_resolved_shortcode(line)
            except Exception as e:  # noqa
                got = None
            if want is None or got != want:
                rep.add(f"line:{line[:60]!r}", "violation", "bundled-line", f"real {got!r} vs independent {want!r}")
                continue
            name, body = want
            if MARK in body:
                ncomp += 1
                segs = body.split(MARK)
                ok = len(segs) == 3 and B.get(name) == [segs[1], "{" + segs[2]] and not segs[0].strip("{ ").strip()
                if not ok:
                    rep.add(f"compound:{name}", "violation", "bundled-compound", f"loader gives {B.get(name)!r}")
                    continue
            elif B.get(name) != [body]:
                rep.add(f"insn:{name}", "violation", "bundled-load", "behaviors[name] differs from the line's body")
                continue
            rep.add(f"line:{name}", "ok")
    # bounded-exhaustive concrete differential (small alphabet, every string up to the bound) against the independent splitters:
    # independent of the shape of the code under test, so it still decides when the shim cannot run a rewritten function
    import itertools
    alpha = ["a", "(", ")", ",", " ", "{", "}", ";"]
    nconc = 0
    bad_lines = 0
    for L in range(1, 6 if thorough else 5):
        for tup in itertools.product(alpha, repeat=L):
            body = "".join(tup)
            if body.strip() != body or not body:
                continue
            for name in ("a", "A2_x9"):
                for nl in ("\n", ""):
                    line = f"insn({name}, {body}){nl}"
                    nconc += 1
                    try:
                        got = PP.split_resolved_shortcode(line)
                    except Exception as e:  # noqa
                        got = f"raised {type(e).__name__}"
                    if got != (name, body):
                        bad_lines += 1
                        if bad_lines <= 5:
                            rep.add(f"line:{line!r}", "violation", "lossy", f"{line!r}: real function gives {got!r}, expected {(name, body)!r}", example=line)
    frag = ["a;", " ", "{b;}", "{{c}}", "if(x){y;}else{z;}", "", "f(1,2);", "{}"]
    for p1a, p1b, p2 in itertools.product(frag, frag, frag[:6]):
        p1 = p1a + p1b
        if not p1:
            continue
        txt = "{" + MARK + "{" + p1 + "}" + MARK + p2 + "}"
        nconc += 1
        try:
            got = PP.split_compounds(txt)
        except Exception as e:  # noqa
            got = f"raised {type(e).__name__}"
        want = ("{" + p1 + "}", "{" + p2 + "}")
        if got != want:
            bad_lines += 1
            if bad_lines <= 10:
                rep.add(f"compound:{txt!r}", "violation", "parts", f"{txt!r}: real function gives {got!r}, expected {want!r}", example=txt)
    rep.coverage["concrete_differential"] = dict(strings=nconc, disagreements=bad_lines,
                                                 note="bounded-exhaustive enumeration over a small alphabet (not solved); complements the symbolic queries")
    # load_insn_behavior on generated resolved files: '#' lines skipped, every other line recovered, a malformed line raises
    nload = _loader_cases(rep, PP)
    rep.coverage["loader_files"] = nload
    # malformed bundled-like lines must raise
    for bad in ["insn A2_add, { }", "insn(A2_add { })", "", "insn(, { })", "xinsn(a, b", "insn(a,b)"]:
        try:
            got = PP.split_resolved_shortcode(bad)
            if independent_split(bad) is None:
                rep.add(f"malformed:{bad!r}", "violation", "malformed-not-rejected", f"returned {got!r}")
            else:
                rep.add(f"malformed:{bad!r}", "ok")
        except ValueError:
            rep.add(f"malformed:{bad!r}", "ok")
    # encoder validation against CPython
    pats = [(r"insn\((\w+), (.+)\)$", re.ASCII, True), (r"\{.*__COMPOUND_PART1__(\{.+})__COMPOUND_PART1__(.*)}$", 0, False)]
    samples = ["insn(A2_add, { RdV=RsV+RtV;})\n", "insn(x, )))", "abc", "insn(a, b)\n\n", "{ a; __COMPOUND_PART1__{ x; }__COMPOUND_PART1__ y; }",
               "{__COMPOUND_PART1__{}__COMPOUND_PART1__}", "insn(a_1, f(1, (2)))\n"]
    for _ in range(6 if thorough else 2):
        samples.append("".join(rng.choice("insn(), {}_aZ0\n") for _ in range(rng.randint(3, 14))))
    nval = 0
    for p, fl, srch in pats:
        for t in samples:
            ok, why = concrete_agrees(p, fl, t, srch)
            nval += 1
            if not ok:
                rep.harness_error(f"BVRE encoder disagrees with CPython re on {t!r} / {p!r}: {why}")
    rep.coverage.update(
        explanation="the REAL split_resolved_shortcode / split_compounds run on symbolic byte buffers (their module global `re` replaced by a "
                    "stand-in that receives the real pattern and emits a Boolean/bit-vector encoding of CPython's leftmost / "
                    "greedy-longest-that-lets-the-rest-match semantics); structured inputs 'insn(' NAME ', ' BODY ')' ['\\n'] and "
                    "'{' PRE MARK '{' P1 '}' MARK P2 '}' with free fragments; z3 decides recovered == input.  Finite bundled domain "
                    "(2181 lines, 72 compounds) executed against an independent splitter; encoder validated against CPython re.",
        bounds=dict(line_buffer_bytes=N, name_max=8, compound_buffer_bytes=Nc, pre_max=3, alphabet="printable ASCII (fragments without '_' and braces)"),
        functions_encoded=["PreprocessorHexagon.split_resolved_shortcode", "PreprocessorHexagon.split_compounds", "load_insn_behavior (bundled file)"],
        evaluations=nq + nlines + nval, distinct_nontrivial=nlines, queries=nq, bundled_lines=nlines, bundled_compounds=ncomp,
        encoder_validations=nval, rule="one solver query per obligation; one item per bundled line")
    rep.samples = ["insn(' NAME ', ' BODY ')\\n'  (symbolic NAME<=8, BODY free)", "'{' PRE MARK '{' P1 '}' MARK P2 '}'"]
    rep.assumptions = ["BVRE covers the regex subset the functions use (literals, . \\w \\s, greedy * +, groups, $); anything else raises (harness error)",
                       "strings longer than the stated buffers are outside the claim"]
    return rep.finish({"bundled lines agreeing": (nlines - 5, 2000)})
