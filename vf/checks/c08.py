"""C08 - sub-routine calls follow the C calling convention and isolate the callee."""
from . import famcheck, c01
from .. import families, corpus, framework, corpus_run


def _post(rep, recs):
    # (a) each bundled / test sub-routine in isolation: C source vs the body the real compiler produced
    subs, _, _ = corpus_run.res()
    for r in framework.pmap(c01._sub_isolated, [(n, 17, 20000) for n in subs]):
        if r["verdict"] == "missing":
            rep.add(r["key"], "violation", "rejected", r["detail"])
        else:
            c01.classify(rep, r, None)


# sub-routines with an open finding (early return, colliding local name) are not called from the random programs
C08_MIX_CALLS = [("vf_br", 2), ("vf_post", 1), ("vf_nest", 1), ("vf_nest2", 2), ("vf_narrow", 1), ("vf_wide", 2), ("vf_two", 2), ("vf_loop", 1),
                 ("vf_id_int8_t", 1), ("vf_id_uint16_t", 1), ("vf_id_int64_t", 1), ("vf_conv_int16_t_uint64_t", 1)]


def run(tier):
    corpus.EXTRA_SUBS = families.c08_subs()
    corpus.EXTRA_SUBS_LATE = True
    return famcheck.run(
        "C08", tier, [("c08", families.c08(tier)),
                     ("mixed", families.mixed(tier, 1500 if tier == "thorough" else 100, salt=8, calls=C08_MIX_CALLS))],
        "13 bundled + 10 structural + 64 conversion test sub-routines (parameter/return types over the 8 integer types, locals, "
        "branches, early return, postfix operators, loops, nested calls) registered through the public Compiler.add_sub_routine "
        "AFTER other behaviours (one failing) were compiled on the instance; each sub-routine in isolation against its C source; call "
        "sites with 1..4 calls per expression, results kept live across later calls, nested calls as arguments; every program at "
        "temporary-counter offsets 0, 1 and 1000. IL model: callee bodies inlined in RzIL's flat local namespace with by-name "
        "parameter passing, so a callee that clobbers a live caller local/temporary changes the final state.",
        wf_clauses=("c10:",), hybs=(0, 1, 1000), post=_post)
