"""C06 - value-producing side effects happen exactly once, in order, only when selected."""
from . import famcheck
from .. import families


def run(tier):
    return famcheck.run(
        "C06", tier, [("c06", families.c06(tier)), ("mixed", families.mixed(tier, 1500 if tier == "thorough" else 80, salt=6))],
        "13 value-producing operations (postfix ++/-- on locals and registers, bundled sub-routine calls, GCC statement-expressions) "
        "in 14 positions (initialiser, assignment, both operand sides, condition, call argument, both ?: arms, unused expression "
        "statement, store value, loop body, if body, behind && and ||), pairs of operations on independent state, loop steps, "
        "register-writing/void sub-routines; a witness statement before and after reads the state the operation touches; every program "
        "at temporary-counter offsets 0 (fresh instance) and 1000 (long-lived instance); temporaries must be written before read",
        wf_clauses=("c10:",), hybs=(0, 1000))
