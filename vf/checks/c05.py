"""C05 - statements take effect in source order under exactly C's conditions."""
from . import famcheck
from .. import families


def run(tier):
    return famcheck.run(
        "C05", tier, [("c05", families.c05(tier)), ("c05_narrow", families.c05_assign_narrow()),
                      ("mixed", families.mixed(tier, 3000 if tier == "thorough" else 150, salt=5))],
        "all 11 assignment operators x 8 right-hand types x {32-bit rw register, 64-bit rw pair, int32/uint32/int64/uint64 locals, "
        "32-bit destination, 8-bit predicate} (exhaustive); if / if-else / else-if chains (6 condition shapes), for loops with constant "
        "trip counts 0..8, data-dependent trip counts, nested loops, bodies writing registers, locals and memory; all ordered pairs of 12 "
        "simple statements; seeded-random statement trees of nesting depth <= 4; compound assignment on 8/16-bit locals as exploration",
        wf_clauses=("c10:",), item_defaults=dict(unroll=9))
