"""C14 - compilation results do not depend on history or on earlier failures.

(a) attribute half: the CrossHair inductive step of C13 (arbitrary pre-state).  (b) bounded model checking of
histories: the transition function is the real code, so histories are executed concretely in long-lived processes
(every ordered pair of pool items x entry point x instance, then each probe); the probe's output is compared with
the output of a FRESH process: identical text up to temporary renaming and comments, else an IL==IL solver query
tells whether the difference is semantic.  (c) state-footprint step: after every single entry-point call from a clean
instance the reflected persistent state equals the clean footprint (except an explicit whitelist), which is what makes
the history bound meaningful.  (d) long histories: ~100 (quick) / ~400 (thorough) programs of the mixed family, the pool and
interleaved failing inputs compiled in 8 / 16 different orders, one process per order; per program all orders must agree.
"""
import itertools
import os
import random
import re
from .. import chrun, framework, corpus, corpus_run, tv
from ..framework import Report

HARNESS = os.path.join(framework.VERIF, "vf", "ch", "c13_harness.py")

POOL = [
    "{ RdV = RsV + RtV; }",
    "{ if (PuV & 1) { RdV = RsV; } else { RdV = siV; } }",
    "{ EA = RsV + uiV; mem_store_u16(EA, RtV); RdV = mem_load_s8(EA); }",
    "{ RdV = clz32(RsV) + clo32(RtV); }",
    "{ for (i = 0; i < 3; i++) { RxV = RxV + i; } }",
    "{ P1 = RsV; P3 = RtV; PdV = PuN; }",
    "{ riV = (riV & ~3); JUMP(HEX_REG_ALIAS_PC + riV); }",
    "{ int32_t n = RsV; RdV = (RtV > 0) ? ({ n = n + 1; n; }) : 3; RxV = n++; }",
    "{ HEX_REG_ALIAS_LR = RsV; RdV = P0_NEW; }",
    "{ uint8_t a = RsV; int16_t b = RtV; RddV = (a < b) ? a * b : (a >> 2); }",
    "{ HEX_REG_ALIAS_LR = (get_npc(pkt) & 0xfffffffe); JUMP(RsV); }",          # plugin parameters pkt / hi / bundle in the emitted code
    "{ if (PuV & 1) { RdV = RsV; } else { STORE_SLOT_CANCELLED(pkt, slot); } }",
    "{ EA = RxV; fcirc_add(bundle, RxV, siV, MuV, get_corresponding_CS(pkt, MuV)); RdV = (int32_t)mem_load_u8(EA); }",
    "{ set_usr_field(bundle, HEX_REG_FIELD_USR_OVF, 1); RdV = get_usr_field(bundle, HEX_REG_FIELD_USR_OVF); }",
    "{ EA = RsV; RdV = EA++; }",                                              # value-producing operation ON a special identifier (EA, i)
    "{ EA = RsV; i = 2; RxV = i-- + EA--; mem_store_u8(EA, RtV); }",
    # failing inputs
    "{ RdV = RsV +; }",                                  # parse error
    "{ while (RsV) { RdV = 1; } }",                      # unsupported construct
    "{ RdV = clz32(RsV) + foo(RtV); }",                  # fails in the transformer with a pending hybrid
    "{ RdV = get_npc(pkt) + foo(bundle, hi); }",         # fails after plugin parameters were read
    "{ const int32_t q = 1; q = RsV; RdV = q; }",        # assignment to const
    "{ P0 = mem_load_u8(RsV) + undefined_fn(3); }",      # fails after attribute flags were set
    "{ int32_t n = RsV; n++; RdV = n; break; }",         # fails at the end
    "{ G1_NEW = RsV; }",                                 # fails right after a flag was set, before any operand is registered
    "{ JUMP(undefined_target_x); }",
    "{ mem_store_u8(undefined_addr_x, 1); }",
]
PROBES = [0, 1, 2, 3, 4, 5, 6, 7, 8, 9, 10, 11, 12, 13]
ENTRIES = ("stmt", "insn", "cinsn")


def normalise(text):
    """Strip // comments and rename compiler temporaries by order of first occurrence."""
    code = "\n".join(l.split("//", 1)[0].rstrip() for l in text.split("\n"))
    code = "\n".join(l for l in code.split("\n") if l.strip())
    names = {}

    def ren(m):
        names.setdefault(m.group(0), f"h_tmp#{len(names)}")
        return names[m.group(0)]
    return re.sub(r"h_tmp\d+", ren, code)


def _do(c, text, entry):
    """One public entry-point call.  -> ('ok', code, meta) | ('exc', name)"""
    from rzilcompiler.Parser import ParsedInsn
    try:
        if entry == "stmt":
            code = c.compile_c_stmt(text)
            return ("ok", code, None)
        ast = c.parser.parse(text)
        if entry == "cinsn":
            # the third public entry point: compile_insn(name) on the instance's parsed_insns registry
            c.parsed_insns["vf_hist"] = ParsedInsn("vf_hist", [ast], [text])
            r = c.compile_insn("vf_hist")
        else:
            r = c.transform_insn("vf_hist", ParsedInsn("vf_hist", [ast], [text]))
        return ("ok", r.rzil[0], list(r.meta[0]))
    except Exception as e:  # noqa
        return ("exc", type(e).__name__)


def _fresh(item):
    """Reference: the probe compiled first thing on a fresh Compiler in a fresh process."""
    idx, entry = item
    from rzilcompiler.Compiler import Compiler
    from rzilcompiler.ArchEnum import ArchEnum
    import io, contextlib
    with contextlib.redirect_stdout(io.StringIO()):
        c = Compiler(ArchEnum.HEXAGON)
    return (idx, entry, _do(c, POOL[idx], entry))


_inst = {}


def _instances():
    if not _inst:
        from rzilcompiler.Compiler import Compiler
        from rzilcompiler.ArchEnum import ArchEnum
        import io, contextlib
        with contextlib.redirect_stdout(io.StringIO()):
            _inst["A"] = Compiler(ArchEnum.HEXAGON)
            _inst["B"] = Compiler(ArchEnum.HEXAGON)
    return _inst


def _history(item):
    """item = (history [(idx, entry, inst)], probe (idx, entry, inst)) executed in a long-lived process."""
    hist, probe = item
    I = _instances()
    for idx, entry, inst in hist:
        _do(I[inst], POOL[idx], entry)
    idx, entry, inst = probe
    return (hist, probe, _do(I[inst], POOL[idx], entry))


# persistent state that may legitimately differ after a call (none of it can change a result: histories (b) check that)
FP_WHITELIST = {"hybrid_op_count", "missing_fcns", "compiled_insns", "parsed_insns", "sub_routines", "behaviors", "patched_macros",
                "preprocessor", "parser", "transformer", "il_ops_holder", "ext"}


def _is_pure_typed(x):
    try:
        from rzilcompiler.Transformer.ValueType import VTGroup
        return bool(x.value_type.group & VTGroup.PURE)
    except Exception:
        return True


def _snap(v, depth=0):
    import enum
    if isinstance(v, (bool, int, str, float, type(None))):
        return v
    if isinstance(v, enum.Enum):
        return str(v)
    if type(v).__name__ == "count":  # itertools.count
        return repr(v)
    if isinstance(v, dict):
        out = {}
        for k, x in v.items():
            prim = {a: b for a, b in vars(x).items() if isinstance(b, (bool, int, str))} if hasattr(x, "__dict__") and depth == 0 else type(x).__name__
            if isinstance(prim, dict) and "reads" in prim and not _is_pure_typed(x):
                del prim["reads"]  # Parameter.il_read consults the counter only for PURE-typed parameters (pkt / hi / bundle are external)
            out[str(k)] = prim
        return dict(sorted(out.items()))
    if isinstance(v, (set, frozenset)):
        return sorted(str(x) for x in v)
    if isinstance(v, (list, tuple)):
        return [_snap(x, depth + 1) if depth < 1 else type(x).__name__ for x in v][:64]
    return type(v).__name__


def _long_history(item):
    """(d) one long history in its own process: every program of the list once, in the order given by the seed, on two instances
    in turn; entry point fixed per program.  -> [(index, result)]"""
    order_seed, progs = item
    rng = random.Random(order_seed)
    order = list(range(len(progs)))
    rng.shuffle(order)
    I = _instances()
    out = []
    for k, idx in enumerate(order):
        out.append((idx, _do(I["AB"[rng.randrange(2)]], progs[idx], ENTRIES[idx % len(ENTRIES)])))
    return out


def long_history_programs(thorough):
    """Pool for (d): the untargeted mixed family (+ calls) with the failing inputs of POOL spread between them."""
    from .. import families
    progs = families.mixed("quick", 360 if thorough else 90, salt=14)
    progs += [p for p in POOL[:14]]
    # statements whose value is unused and that have SEVERAL pending hybrids (their order must not depend on the temporary counter,
    # which grows over a history: h_tmp9 -> h_tmp10 -> h_tmp100)
    for a_, b_ in [("n++", "m++"), ("clz32(n)", "clo32(m)"), ("n--", "revbit32(m)"), ("fbrev(n)", "m--"), ("clz32(n++)", "clo32(m--)"),
                   ("({ n = n + 1; n; })", "m++"), ("n++", "({ m = m * 2; m; })")]:
        progs.append(f"{{ int32_t n = RsV; int32_t m = RtV; {a_} + {b_}; RdV = n + m; }}")
        progs.append(f"{{ int32_t n = RsV; int32_t m = RtV; RxV = {a_} - {b_}; {b_}; RdV = n ^ m; }}")
        progs.append(f"{{ int32_t n = RsV; int32_t m = RtV; for (i = 0; i < 2; i++) {{ {a_} + {b_} + {a_}; }} RdV = n + m; }}")
    fails = POOL[14:]
    rng = random.Random(framework.seed() + 1414)
    for _ in range(len(progs) // 6):
        progs.insert(rng.randrange(len(progs)), rng.choice(fails))
    return progs


REG_BAD = [("int32_t", ["int32_t a"], "{ return a +; }"), ("int64_t", ["int8_t a", "int8_t b"], "{ return undefined_fn_x(a); }"),
           ("uint8_t", ["uint64_t a"], "{ while (a) { a = a - 1; } return a; }"), ("uint16_t", ["int16_t a"], "{ int32_t vf_h_k = a; vf_h_k++; return vf_h_k + nope; }"),
           ("void", ["HexInsnPktBundle *bundle", "int32_t a"], "{ R1 = a; break; }")]
REG_GOOD = ("int32_t", ["int32_t a"], "{ int32_t vf_h_k = a; vf_h_k++; return vf_h_k * 2; }")
REG_CALLERS = ["{ RdV = vf_h_sub(RsV); }", "{ RddV = vf_h_sub(RssV) + vf_h_sub(RtV); }", "{ RdV = vf_h_other(RsV); }"]
REG_OTHER_INSTANCE = -2  # history: ANOTHER Compiler instance of the same process registered vf_h_sub (different body) and vf_h_other before


def _registration_history(item):
    """(e) public API Compiler.add_sub_routine: a FAILED registration followed by a corrected one under the same name must leave the
    compiler as if only the corrected one had happened.  item = index into REG_BAD or -1 (reference).  Own process each."""
    from rzilcompiler.Compiler import Compiler
    from rzilcompiler.ArchEnum import ArchEnum
    from rzilcompiler.Transformer.Hybrids.SubRoutine import SubRoutineInitType
    import io, contextlib
    with contextlib.redirect_stdout(io.StringIO()):
        c = Compiler(ArchEnum.HEXAGON)
    first = None
    if item == REG_OTHER_INSTANCE:
        from rzilcompiler.Transformer.RZILTransformer import CodeFormat
        first = "other-instance"
        with contextlib.redirect_stdout(io.StringIO()):
            other = Compiler(ArchEnum.HEXAGON, CodeFormat.EXEC_CLASSES)
        other.add_sub_routine("vf_h_sub", "int32_t", ["int32_t a"], "{ return a - 7; }")
        other.add_sub_routine("vf_h_other", "int32_t", ["int32_t a"], "{ return a + 1; }")
    if item >= 0:
        try:
            c.add_sub_routine("vf_h_sub", *REG_BAD[item])
            first = "accepted"
        except Exception as e:  # noqa
            first = type(e).__name__
    try:
        c.add_sub_routine("vf_h_sub", *REG_GOOD)
        definition = c.sub_routines["vf_h_sub"].il_init(SubRoutineInitType.DEF)
    except Exception as e:  # noqa
        return (item, first, ("exc", type(e).__name__), [])
    return (item, first, ("ok", definition), [_do(c, t, "stmt") for t in REG_CALLERS])


def footprint(c):
    """Reflected persistent state of a Compiler and of the class-level mutables of the package."""
    from rzilcompiler.HexagonExtensions import HexagonTransformerExtension
    from rzilcompiler.Preprocessor.Hexagon.PreprocessorHexagon import PreprocessorHexagon
    from rzilcompiler.Compiler import Compiler
    t = c.transformer
    h = t.il_ops_holder
    e = t.ext
    fp = {
        "ext.preds_written": list(getattr(e, "preds_written", [])),
        "class.preds_written": list(HexagonTransformerExtension.__dict__.get("preds_written", [])),
        "sub_routines": sorted(set(Compiler.__dict__.get("sub_routines", {})) | set(c.sub_routines)),
        # the HYBRID_LVAR bit that resolve_hybrid ORs into a registered sub-routine's return type on its first call is whitelisted
        # (idempotent; histories (b) show it does not change any result)
        "sub_routine.types": {n: (str(s.value_type), s.value_type.group.value & ~4, [(str(p.value_type), p.value_type.group.value) for p in s.ops])
                              for n, s in sorted(c.sub_routines.items())},
        "noped": list(c.noped_insns), "behaviors": len(PreprocessorHexagon.behaviors), "patched_macros": len(PreprocessorHexagon.patched_macros),
    }
    # generic reflection (no attribute names of the implementation are assumed): every instance attribute of the transformer,
    # its operand holder and its extension, and every mutable class-level attribute of their classes
    for tag, obj in (("transformer", t), ("holder", h), ("ext", e), ("compiler", c)):
        for k, v in sorted(vars(obj).items()):
            if k not in FP_WHITELIST:
                fp[f"{tag}.{k}"] = _snap(v)
        for cls in type(obj).__mro__[:-1]:
            for k, v in sorted(vars(cls).items()):
                if isinstance(v, (list, dict, set)) and k not in FP_WHITELIST:
                    fp[f"class:{cls.__name__}.{k}"] = _snap(v)
    return fp


def _footprint_step(item):
    idx, entry = item
    I = _instances()
    c = I["A"]
    c.transformer.reset()
    before = footprint(c)
    res = _do(c, POOL[idx], entry)
    after = footprint(c)
    diff = {k: (before[k], after[k]) for k in before if before[k] != after[k]}
    return (idx, entry, res[0], {k: [str(v[0])[:120], str(v[1])[:120]] for k, v in diff.items()})


def run(tier):
    rep = Report("C14", tier, "model_checking")
    thorough = tier == "thorough"
    rng = random.Random(framework.seed() + 14)
    # (a)
    res = chrun.run_harness(HARNESS, 900 if thorough else 240, thorough=thorough)
    nconf = chrun.report(rep, HARNESS, res, "C14")
    # references from fresh processes
    refs = {}
    for idx, entry, r in framework.pmap(_fresh, [(i, e) for i in range(len(POOL)) for e in ENTRIES], fresh=True):
        refs[(idx, entry)] = r
    # (b) histories
    steps = [(i, e, inst) for i in range(len(POOL)) for e in ENTRIES for inst in ("A", "B")]
    probes = [(i, e, "A") for i in PROBES for e in ENTRIES]
    items = [([], p) for p in probes]
    items += [([s], p) for s in steps for p in probes]
    pairs = list(itertools.product(steps, steps))
    pairs = rng.sample(pairs, 6000 if thorough else 400)
    for s1, s2 in pairs:
        for p in rng.sample(probes, min(len(probes), 7 if thorough else 4)):
            items.append(([s1, s2], p))
    if thorough:
        for _ in range(3000):
            items.append(([rng.choice(steps) for _ in range(3)], rng.choice(probes)))
    results = framework.pmap(_history, items, chunksize=64)
    subs, macs, noped = corpus_run.res()
    il_subs = corpus_run.il_subs()
    from ..cref import optable
    transitions = 0
    states = set()
    nhist_ok = 0
    for hist, probe, got in results:
        transitions += len(hist) + 1
        states.add(tuple(hist))
        idx, entry, inst = probe
        ref = refs[(idx, entry)]
        key = "hist:" + " ; ".join(f"{e}@{i}:{POOL[x]}" for x, e, i in hist) + f" => {entry}@{inst}:{POOL[idx]}"
        if got[0] != ref[0]:
            rep.add(key, "violation", "acceptance", f"fresh process: {ref[0]} {ref[1] if ref[0] == 'exc' else ''} / after history: {got[0]} "
                    f"{got[1] if got[0] == 'exc' else ''}", history=[list(h) for h in hist], probe=list(probe))
            continue
        if got[0] == "exc":
            nhist_ok += 1
            rep.add(key, "ok", "both-raise")
            continue
        if got[2] != ref[2]:
            rep.add(key, "violation", "attributes", f"fresh {ref[2]} / after history {got[2]}", history=[list(h) for h in hist], probe=list(probe))
            continue
        if normalise(got[1]) == normalise(ref[1]):
            nhist_ok += 1
            rep.add(key, "ok")
            continue
        r = tv.check_il_pair(ref[1], got[1], il_subs, il_subs, optable(POOL[idx], [d["code"] for d in subs.values()]), tv.Opts(unroll=9))
        rep.count_query(r.verdict)
        rep.add(key, "violation", "code-semantic" if r.verdict != "equiv" else "code-text",
                f"emitted code differs from the fresh-process code beyond temporary renaming; IL==IL query: {r.verdict} {r.detail[:120]}",
                history=[list(h) for h in hist], probe=list(probe), fresh=ref[1], got=got[1])
    # (d) long histories: the same programs in different orders (own process each) must give the same result per program
    lprogs = long_history_programs(thorough)
    norders = 16 if thorough else 8
    runs = framework.pmap(_long_history, [(framework.seed() * 1000 + k, lprogs) for k in range(norders)], fresh=True)
    per = {}
    for run_ in runs:
        for idx, got in run_:
            per.setdefault(idx, []).append(got)
    nlong_ok = 0
    for idx, gots in sorted(per.items()):
        key = f"long:{ENTRIES[idx % len(ENTRIES)]}:{lprogs[idx]}"
        ref = gots[0]
        bad = None
        for k, got in enumerate(gots[1:], 1):
            if got[0] != ref[0] or (got[0] == "exc" and got[1] != ref[1]):
                bad = ("acceptance", f"order 0: {ref[0]} {ref[1] if ref[0] == 'exc' else ''} / order {k}: {got[0]} {got[1] if got[0] == 'exc' else ''}")
            elif got[0] == "ok" and got[2] != ref[2]:
                bad = ("attributes", f"order 0 {ref[2]} / order {k} {got[2]}")
            elif got[0] == "ok" and normalise(got[1]) != normalise(ref[1]):
                r = tv.check_il_pair(ref[1], got[1], il_subs, il_subs, optable(lprogs[idx], [d["code"] for d in subs.values()]), tv.Opts(unroll=9))
                rep.count_query(r.verdict)
                bad = ("code-semantic" if r.verdict != "equiv" else "code-text",
                       f"emitted code depends on the order of earlier compilations (order 0 vs order {k}); IL==IL query: {r.verdict} {r.detail[:120]}")
            if bad:
                break
        if bad:
            rep.add(key, "violation", bad[0], bad[1], orders=norders)
        else:
            nlong_ok += 1
            rep.add(key, "ok")
    # (e) registration histories
    regs = framework.pmap(_registration_history, [-1, REG_OTHER_INSTANCE] + list(range(len(REG_BAD))), fresh=True)
    ref = regs[0]
    nreg_ok = 0
    for item, first, definition, callers in regs[1:]:
        key = f"register:failed({REG_BAD[item][2]}) then corrected" if item >= 0 else "register:another Compiler instance registered vf_h_sub / vf_h_other before"
        if first == "accepted":
            rep.add(key, "inconclusive", "bad-accepted", "the deliberately broken sub-routine body was accepted")
        elif definition != ref[2] and not (definition[0] == "ok" and ref[2][0] == "ok" and normalise(definition[1]) == normalise(ref[2][1])):
            rep.add(key, "violation", "registration", f"after a failed registration ({first}) the corrected sub-routine is not what a fresh compiler builds: "
                    f"{str(definition)[:160]} vs {str(ref[2])[:160]}")
        elif [(c_[0], normalise(c_[1]) if c_[0] == "ok" else c_[1]) for c_ in callers] != [(c_[0], normalise(c_[1]) if c_[0] == "ok" else c_[1]) for c_ in ref[3]]:
            rep.add(key, "violation", "registration", "callers of the corrected sub-routine compile differently after a failed registration of the same name")
        else:
            nreg_ok += 1
            rep.add(key, "ok")
    # (c) footprint step
    nfp = 0
    for idx, entry, status, diff in framework.pmap(_footprint_step, [(i, e) for i in range(len(POOL)) for e in ENTRIES], chunksize=4):
        key = f"footprint:{entry}:{POOL[idx]}"
        if diff:
            rep.add(key, "violation", "footprint", f"persistent state changed by one {entry} call ({status}): {diff}")
        else:
            nfp += 1
            rep.add(key, "ok")
    rep.coverage.update(
        states=len(states), transitions=transitions, traces_validated_against_impl=len(results),
        explanation="histories are executed on the real code (the implementation IS the transition function); pool of 14 behaviours + 7 "
                    "failing inputs x entry points {compile_c_stmt, transform_insn, compile_insn} x two Compiler instances in one process; all histories "
                    "of length 0 and 1, " + ("6000 seeded ordered pairs of steps" if thorough else "400 seeded pairs") + " as histories of length 2 (each with " + ("7" if thorough else "4") + " seeded probes)" + (", 3000 seeded of length 3" if thorough else "")
                    + ", each followed by probes compared with a fresh process; footprint step over every (input, entry point)",
        pool=POOL, conditions_confirmed=nconf, footprint_steps_clean=nfp, histories_agreeing=nhist_ok,
        functions_encoded=["Compiler.compile_c_stmt", "Compiler.transform_insn", "Compiler.compile_insn", "RZILTransformer.reset",
                           "ILOpsHolder.clear", "HexagonTransformerExtension.reset_flags / set_token_meta_data / get_meta (CrossHair)",
                           "class-level state of Compiler, PreprocessorHexagon, HexagonTransformerExtension"],
        registration_histories=dict(cases=len(REG_BAD) + 1, agreeing=nreg_ok, explanation="(e) another Compiler instance of the same process registered the same and another name before (1 case); Compiler.add_sub_routine with a failing body, then the corrected "
                                    "sub-routine under the same name, in a fresh process each; definition text and three callers vs a process that only registers the corrected one"),
        long_histories=dict(programs=len(lprogs), orders=norders, programs_agreeing=nlong_ok,
                            explanation="(d) every program of the mixed family + the pool + interleaved failing inputs compiled once per process in "
                                        f"{norders} different seeded orders (two instances in turn, entry point fixed per program): status, attributes and "
                                        "code (up to temporary renaming, else IL==IL query) must agree between all orders"),
        bounds=dict(history_length="<= 2 (quick sample) / <= 3 (thorough); long histories: one per order, length = number of programs", instances=2, pool=len(POOL)))
    rep.samples = [dict(history=[f"{e}@{i}:{POOL[x]}" for x, e, i in h], probe=f"{p[1]}@{p[2]}:{POOL[p[0]]}", result=g[0])
                   for h, p, g in results[::max(1, len(results) // 8)]][:10]
    rep.assumptions = ["whitelisted persistent state: temporary counter (hybrid_op_count), missing_fcns statistics, compiled_insns registry, "
                       "the HYBRID_LVAR bit OR'ed into a registered sub-routine's return type on its first call",
                       "histories longer than the bound rely on the footprint argument (c) and on the inductive step (a)"]
    return rep.finish({"histories agreeing": (nhist_ok, int(len(results) * 0.9)), "footprint steps": (nfp, 40)})
