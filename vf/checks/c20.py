"""C20 - macro resolution equals standard C preprocessing under the patched macro set."""
import os
import random
import shutil
import time
import z3
from .. import corpus, framework, chrun, c20_bundled as BD
from ..framework import Report
from ..shim.bvre import SymS, concat_eq
from ..shim.symstr import SymStr, Shim2, run_real, model_string, concrete_agrees

HARNESS = os.path.join(framework.VERIF, "vf", "ch", "c20_harness.py")
DW = r"(.*)do\s*\{(.*)}\s*while\s*\(0\)(.*)"


def _pp():
    corpus.quiet_imports()
    from rzilcompiler.Preprocessor.Hexagon.PreprocessorHexagon import PreprocessorHexagon
    return PreprocessorHexagon


class Shim3(Shim2):
    """Collects the match-existence decisions instead of asserting them (the caller needs the termination obligation)."""

    def __init__(self, solver, decisions, N):
        Shim2.__init__(self, solver, decisions, N)
        self.cons = []

    def _do(self, pattern, string, flags, search):
        from ..shim.symstr import materialise, to_atoms, SymMatch
        from ..shim.bvre import py_match
        base = materialise(self.solver, string, self.N, f"mat{self.n}")
        atoms, end = to_atoms(pattern, flags)
        ex, pos, spans = py_match(self.solver, atoms, base, f"m{self.n}", search=search, end_anchor=end)
        self.n += 1
        want = self.decisions.pop(0) if self.decisions else False
        self.cons.append((ex, want))
        self.log.append((pattern, want))
        return SymMatch(base, spans) if want else None


def _layout(s, code, N, pieces):
    """pieces: list of ('lit', text) | ('ws', var, maxlen) | ('free', var, maxlen).  Lays them out in buffer `code`."""
    off = z3.IntVal(0)
    spans = {}
    for p in pieces:
        if p[0] == "lit":
            for m, ch in enumerate(p[1]):
                for k in range(N):
                    s.add(z3.Implies(off + m == k, code.c[k] == ord(ch)))
            off = off + len(p[1])
        else:
            kind, name, mx = p
            ln = z3.Int("len_" + name)
            s.add(ln >= 0, ln <= mx)
            for k in range(N):
                inside = z3.And(k >= off, k < off + ln)
                if kind == "ws":
                    s.add(z3.Implies(inside, code.c[k] == 32))
                else:
                    # free fragment: printable, but no 'o' / 'w' (so no other do/while can occur) and no newline
                    s.add(z3.Implies(inside, z3.And(code.c[k] >= 32, code.c[k] < 127, code.c[k] != ord("o"), code.c[k] != ord("w"))))
            spans[name] = (off, off + ln)
            off = off + ln
    s.add(code.L == off, off <= N)
    return spans


def _q_job(item):
    shape, N, fm, timeout_ms = item
    try:
        r = q_do_while(shape, N, timeout_ms, fm)
    except Exception as e:  # noqa - the function under test no longer has a shape the shim can execute symbolically
        r = dict(shape=shape, verdict="shim-not-applicable", detail=f"{type(e).__name__}: {e}"[:200])
    r["N"] = N
    return r


def q_do_while(shape, N, timeout_ms, fm=3):
    PP = _pp()
    s = z3.Solver()
    s.set("timeout", timeout_ms)
    code = SymS("c", N)
    s.add(*code.wf())
    W = lambda n: [("lit", "do"), ("ws", n + "w1", 1), ("lit", "{"), ("free", n, fm), ("lit", "}"), ("ws", n + "w2", 1), ("lit", "while"),  # noqa
                   ("ws", n + "w3", 1), ("lit", "(0)")]
    if shape == "one":
        pieces = [("free", "A", fm)] + W("X") + [("free", "B", fm), ("lit", "\n")]
        keep, nwrap = ["A", "X", "B"], 1
    elif shape == "two":
        pieces = [("free", "A", fm)] + W("X") + [("free", "B", fm)] + W("Y") + [("free", "C", fm), ("lit", "\n")]
        keep, nwrap = ["A", "X", "B", "Y", "C"], 2
    else:  # nested
        pieces = [("free", "A", fm), ("lit", "do {"), ("free", "B", fm)] + W("X") + [("free", "C", fm), ("lit", "} while (0)"), ("free", "D", fm), ("lit", "\n")]
        keep, nwrap = ["A", "B", "X", "C", "D"], 2
    spans = _layout(s, code, N, pieces)
    shim = Shim3(s, [True] * nwrap + [False], N)
    res = run_real(PP.replace_do_while_0, shim, SymStr([(code, z3.IntVal(0), code.L)]))
    out = dict(shape=shape, searches=len(shim.cons))
    if len(shim.cons) != nwrap + 1:
        out["verdict"] = "harness"
        return out
    # the first nwrap searches must match (wrappers are there), the last must not (termination after nwrap rewrites)
    for ex, want in shim.cons[:-1]:
        s.push()
        s.add(z3.Not(ex))
        r = str(s.check())
        s.pop()
        if r != "unsat":
            out.update(verdict="wrapper-not-found", solver=r)
            if r == "sat":
                out["cex"] = model_string(s.model(), [(code, z3.IntVal(0), code.L)], N)
            return out
        s.add(ex)
    s.push()
    s.add(shim.cons[-1][0])
    r = str(s.check())
    if r != "unsat":
        out.update(verdict="no-termination", solver=r)
        if r == "sat":
            out["cex"] = model_string(s.model(), [(code, z3.IntVal(0), code.L)], N)
        s.pop()
        return out
    s.pop()
    s.add(z3.Not(shim.cons[-1][0]))
    want = [(code, spans[k][0], spans[k][1]) for k in keep] + [("\n", z3.IntVal(0), z3.IntVal(1))]
    s.add(z3.Not(concat_eq(res.pieces, want, N)))
    r = str(s.check())
    out["solver"] = r
    if r == "unsat":  # second solver on the same assertions (SMT-LIB2 dump)
        from .. import tv
        out["cvc5"] = tv.cvc5_decide(s.to_smt2(), 60000)
    out["verdict"] = {"unsat": "ok", "sat": "differs"}.get(r, "unknown")
    if r == "sat":
        out["cex"] = model_string(s.model(), [(code, z3.IntVal(0), code.L)], N)
    return out


LOOKALIKES = [
    "{ undo = 1; do { x; } while (0); }\n", "{ do_x = 1; do { y; } while (0); }\n", "{ while0 = 2; do { a; } while (0) }\n",
    "{ redo; do{b;}while(0); }\n", "{ int dodo = 1; do { dodo++; } while (0); }\n", "{ do { do { a; } while (0); } while (0); }\n",
    "{ do { a; } while (0); do { b; } while (0); }\n", "{ a; }\n", "{ do { while (x) { y; } } while (0); }\n",
    "{ if (a) { do { b; } while (0); } else { do { c; } while (0); } }\n", "{ do {\tb; }  while  (0); }\n",
    "{ do { a; } while (1); }\n", "{ xdo { a; } while (0); }\n",
]


def run(tier):
    rep = Report("C20", tier, "other")
    thorough = tier == "thorough"
    PP = _pp()
    t0 = time.time()
    # (1) SHIM on the real replace_do_while_0
    N = 34
    jobs = [("one", N, 3)] if not thorough else [("one", 44, 6), ("two", 40, 1), ("nested", 40, 1)]
    for r in framework.pmap(_q_job, [(sh, n, fm, 1500000 if thorough else 240000) for sh, n, fm in jobs]):
        shape = r["shape"]
        rep.count_query(r.get("solver", r["verdict"]))
        if r.get("cvc5"):
            rep.count_query("cvc5:" + r["cvc5"].split(":")[0])
            if r["cvc5"] == "sat":
                rep.harness_error(f"replace_do_while_0 {shape}: z3 answers unsat, cvc5 answers sat on the same assertions")
        key = f"shim:replace_do_while_0:{shape}:N={r['N']}"
        if r["verdict"] == "ok":
            rep.add(key, "ok", "unsat", "every wrapper replaced by its body, loop terminates, nothing else changed (within the bound)")
        elif r["verdict"] in ("differs", "wrapper-not-found", "no-termination") and r.get("cex") is not None:
            cex = r["cex"]
            real = PP.replace_do_while_0(cex)
            want = "".join(BD.strip_do_while0(BD.tokens(cex)))
            if "".join(BD.tokens(real)) != want:
                rep.add(key + ":" + repr(cex), "violation", r["verdict"], f"{cex!r} -> {real!r}", example=cex)
            else:
                rep.harness_error(f"replace_do_while_0 counterexample does not replay: {cex!r} -> {real!r}")
        else:
            rep.add(key, "inconclusive", r["verdict"], str(r)[:200])
    # look-alike identifiers and shapes outside the symbolic layout: concrete differential vs an independent token-level remover
    for t in LOOKALIKES:
        real = PP.replace_do_while_0(t)
        want = BD.strip_do_while0(BD.tokens(t))
        if BD.tokens(real) != want:
            rep.add("lookalike:" + repr(t), "violation", "differs", f"{t!r} -> {real!r}; token-level reference {' '.join(want)!r}", example=t)
        else:
            rep.add("lookalike:" + repr(t), "ok")
    # every spacing variant of one, two sequential, two nested and three sequential wrappers (concrete, bounded-exhaustive)
    import itertools
    ws = ["", " ", "  "]

    def wrap(body, a, b, c):
        return "do" + a + "{" + body + "}" + b + "while" + c + "(0)"
    nconc = bad = 0
    variants = list(itertools.product(ws, repeat=3))
    cases = []
    for v1 in variants:
        cases.append("{ " + wrap(" x; ", *v1) + "; }\n")
        for v2 in variants:
            cases.append("{ " + wrap(" x; ", *v1) + "; " + wrap(" y; ", *v2) + "; }\n")
            cases.append("{ " + wrap(" a; " + wrap(" x; ", *v2) + "; ", *v1) + "; }\n")
    for v1, v2, v3 in itertools.product(variants[::4], variants[::5], variants[::3]):
        cases.append("{ " + wrap("p;", *v1) + " " + wrap("q;", *v2) + " " + wrap("r;", *v3) + " }\n")
    for t in cases:
        nconc += 1
        try:
            real = PP.replace_do_while_0(t)
        except Exception as e:  # noqa
            real = f"raised {type(e).__name__}"
        want = BD.strip_do_while0(BD.tokens(t))
        if BD.tokens(real) != want:
            bad += 1
            if bad <= 8:
                rep.add("wrappers:" + repr(t), "violation", "differs", f"{t!r} -> {real!r}", example=t)
    rep.coverage["concrete_wrapper_variants"] = dict(strings=nconc, disagreements=bad)
    rep.solver_time = time.time() - t0
    # (2) CrossHair on the real patch_macros
    res = chrun.run_harness(HARNESS, 900 if thorough else 400, thorough=thorough)
    nconf = chrun.report(rep, HARNESS, res, "C20")
    # (3) finite bundled domain: regenerate in a scratch copy, compare with bundled files and two independent preprocessors
    d, rc, out = BD.regenerate(corpus.REPO)
    nlines = 0
    try:
        pp = os.path.join(d, "Resources/Hexagon/Preprocessor")
        if rc != 0:
            rep.add("regenerate", "violation", "regenerate", f"run_preprocess_steps failed: {out[-300:]}")
        else:
            for f in ("macros_patched.h", "combined.h", "shortcode_resolved.h"):
                a = open(os.path.join(pp, f)).read()
                b = open(os.path.join(corpus.REPO, "Resources/Hexagon/Preprocessor", f)).read()
                if BD.nolines(a) == BD.nolines(b):
                    rep.add(f"regenerated:{f}", "ok")
                else:
                    rep.add(f"regenerated:{f}", "violation", "regenerate", "regenerating from the bundled sources does not reproduce the bundled file")
            resolved, order = BD.insn_lines(open(os.path.join(pp, "shortcode_resolved.h")).read())
            src, src_order = BD.insn_lines(open(os.path.join(pp, "shortcode.h")).read().replace("DEF_SHORTCODE(", "insn("))
            if len(order) != len(set(order)) or set(order) != set(src_order) or len(order) != len(src_order):
                rep.add("names", "violation", "names", f"instruction names not preserved one-to-one: {len(order)} resolved vs {len(src_order)} defined")
            else:
                rep.add("names", "ok")
            defined = set()
            import re as _re
            for l in open(os.path.join(pp, "macros_patched.h")):
                m = _re.match(r"#define\s+(\w+)(\()?", l)
                if m:
                    defined.add((m.group(1), bool(m.group(2))))
            for tool in ("cpp", "clang"):
                trc, txt = BD.independent_cpp(os.path.join(pp, "combined.h"), tool)
                ind, _ = BD.insn_lines(txt)
                if len(ind) < 2000:
                    rep.add(f"{tool}:output", "inconclusive", "tool", f"{tool} produced {len(ind)} insn lines")
                    continue
                for n in resolved:
                    nlines += 1
                    if n not in ind:
                        rep.add(f"{tool}:{n}", "violation", "differs", f"{n} missing in {tool} output")
                        continue
                    a = BD.tokens(resolved[n][0])
                    b = BD.strip_do_while0(BD.tokens(ind[n][0]))
                    if a != b:
                        rep.add(f"{tool}:{n}", "violation", "differs", f"resolved behaviour differs from {tool}: {' '.join(a)[:120]} / {' '.join(b)[:120]}")
                    else:
                        rep.add(f"{tool}:{n}", "ok")
            fn_macros = {n for n, f in defined if f}
            obj_macros = {n for n, f in defined if not f}
            surv = 0
            for n, bodies in resolved.items():
                toks = BD.tokens(bodies[0])
                for i, t in enumerate(toks):
                    if (t in fn_macros and i + 1 < len(toks) and toks[i + 1] == "(") or t in obj_macros:
                        # self-referential macros legitimately survive (standard preprocessing leaves them); cpp agreement above covers it
                        surv += 1
            rep.coverage["macro_names_still_present_as_identifiers"] = surv
    finally:
        shutil.rmtree(d, ignore_errors=True)
    # (4) generated macro sets: the whole pipeline (cleanup_macros, patch_macros, pcpp x2, do-while removal) against GNU cpp
    from .. import c20_generated as G
    rng = random.Random(framework.seed() + 20)
    sets = G.macro_sets(rng, 24 if thorough else 6)
    inc, h, mm, patches, sc = sets[0]
    star = (inc, h + "#define fMUL(A) ((A) \\\n    * 2)\n#define fCOM(A) ((A) /* mid */ + 1)\n", mm, patches,
            sc + "DEF_SHORTCODE(T8_mul, { RdV = fMUL(RsV) + fCOM(RtV); })\n")
    ngen = 0
    for r in framework.pmap(G.check_case, [(corpus.REPO, f, i) for i, f in enumerate(sets)] + [(corpus.REPO, star, "star-continuation")]):
        ngen += 1
        key = f"generated:{r['idx']}"
        if r["status"] == "ok":
            rep.add(key, "ok")
        elif r["status"] == "differs":
            rep.add(key, "violation", "differs", r["detail"], files=r["files"])
        else:
            rep.add(key, "inconclusive", r["status"], r["detail"])
    rep.coverage["generated_macro_sets"] = dict(cases=ngen, note="guards, includes, line/block comments (also indented on continuation lines), "
                                                 "continuations, duplicate definitions, patches incl. user-only ones; oracle: GNU cpp with "
                                                 "patches applied as #undef + definition; enumerated, not solved")
    # encoder validation
    nval = 0
    for t in ["{ do { x; } while (0); }", "@do {kdo{} while (0)", "do{a}while(0) do {b} while (0)", "undo { } while (0)", "abc"]:
        ok, why = concrete_agrees(DW, 0, t, True)
        nval += 1
        if not ok:
            rep.harness_error(f"BVRE encoder disagrees with CPython re on {t!r}: {why}")
    rep.coverage.update(
        explanation="(1) the REAL replace_do_while_0 on symbolic buffers (BVRE encoding of its greedy regex; its while-loop executed with "
                    "one decision per search and a termination obligation): one wrapper, two sequential wrappers, two nested wrappers built from "
                    "free fragments; result == input with every wrapper replaced by its body; look-alike identifiers by concrete differential "
                    "against an independent token-level remover.  (2) CrossHair on the real patch_macros (symbolic choice of macro/patch names incl. "
                    "duplicates, user-only patches, a patch defined twice, line continuation; patch file through a stubbed open).  (3) finite "
                    "bundled domain executed: run_preprocess_steps() in a scratch copy reproduces macros_patched.h / combined.h / "
                    "shortcode_resolved.h, names one-to-one, and every resolved line equals `cpp -P -undef -nostdinc` and `clang -E` output "
                    "token-wise modulo the do-while(0) rewrite.",
        bounds=dict(shapes=[list(j) for j in jobs], whitespace_max=1, macros="<= 3", patches="<= 2"),
        functions_encoded=["PreprocessorHexagon.replace_do_while_0", "PreprocessorHexagon.patch_macros", "run_preprocess_steps (executed)"],
        evaluations=3 + len(LOOKALIKES) + len(res) + nlines, distinct_nontrivial=nlines // 2 + len(LOOKALIKES), conditions_confirmed=nconf,
        encoder_validations=nval, rule="one solver query set per wrapper shape; one CrossHair condition; one item per (tool, instruction)")
    rep.samples = ["A 'do' ws '{' X '}' ws 'while' ws '(0)' B '\\n' (A, X, B free fragments)", LOOKALIKES[0], LOOKALIKES[5]]
    rep.assumptions = ["cleanup_macros and pcpp on generated macro files are covered by template-generated macro sets against GNU cpp "
                       "(enumeration; no engine here encodes the file-driven state machine or the third-party preprocessor symbolically)",
                       "free fragments exclude the letters o and w (no further do/while)"]
    return rep.finish({"bundled lines agreeing with independent preprocessors": (nlines, 4000)})
