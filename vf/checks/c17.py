"""C17 - the grammar parses behaviours with C structure, deterministically."""
import hashlib
import json
import os
import random
import subprocess
import sys
from . import famcheck
from .. import families, framework, corpus

_CHILD = r'''
import sys, json, hashlib, os
REPO = os.environ.get("VERIF_REPO", "/repo")
os.chdir(REPO)
import io, contextlib
with contextlib.redirect_stdout(io.StringIO()):
    import rzilcompiler.Helper as H
H.LOG_LEVEL = -1
from lark import Lark
texts = json.load(open(sys.argv[1]))
grammar = open(REPO + "/Resources/Hexagon/grammar.lark").read()
out = {}
reused = Lark(grammar, start="fbody", parser="earley")
for i, t in enumerate(texts):
    res = []
    for parser in (Lark(grammar, start="fbody", parser="earley") if i % 4 == 0 else reused, reused):
        try:
            res.append(hashlib.sha256(parser.parse(t).pretty().encode()).hexdigest()[:16])
        except Exception as e:
            res.append("EXC:" + type(e).__name__)
    out[str(i)] = res
print(json.dumps(out))
'''


def _determinism(rep, texts, nseeds):
    """Same texts parsed in fresh processes with different PYTHONHASHSEED, fresh and reused parser objects."""
    import tempfile
    d = tempfile.mkdtemp(prefix="vf_c17_")
    tf = os.path.join(d, "texts.json")
    cf = os.path.join(d, "child.py")
    with open(tf, "w") as f:
        json.dump(texts, f)
    with open(cf, "w") as f:
        f.write(_CHILD)
    procs = []
    for k in range(nseeds):
        env = dict(os.environ, PYTHONHASHSEED=str(k * 7919 + 1))
        procs.append(subprocess.Popen([sys.executable, cf, tf], stdout=subprocess.PIPE, stderr=subprocess.DEVNULL, env=env))
    outs = []
    for p in procs:
        o, _ = p.communicate()
        try:
            outs.append(json.loads(o.decode().strip().splitlines()[-1]))
        except Exception:  # noqa
            rep.harness_error("determinism child produced no result")
            outs.append(None)
    import shutil
    shutil.rmtree(d, ignore_errors=True)
    good = [o for o in outs if o is not None]
    for i, t in enumerate(texts):
        seen = {tuple(o[str(i)]) for o in good}
        flat = {h for tup in seen for h in tup}
        if len(flat) > 1:
            rep.add(f"parse:{t}", "violation", "nondeterministic", f"{len(flat)} different trees/outcomes over {len(good)} hash seeds "
                    f"and fresh/reused parser objects: {sorted(flat)[:4]}")
        else:
            rep.add(f"parse:{t}", "ok")
    rep.coverage["determinism"] = dict(texts=len(texts), processes=len(good), parser_objects="fresh every 4th text + one reused per process",
                                       note="concrete runs (hash seed / process dimension is enumerated, not solved)")


def run(tier):
    progs = families.c17(tier)
    rng = random.Random(framework.seed())
    B = corpus.load_behaviors()
    names = sorted(n for n in B if len(B[n][0]) < 400)
    texts = rng.sample(progs, 60 if tier == "quick" else 200) + [B[n][0] for n in rng.sample(names, 20 if tier == "quick" else 80)]
    nseeds = 8 if tier == "quick" else 32

    def post(rep, recs):
        _determinism(rep, texts, nseeds)
    return famcheck.run(
        "C17", tier, [("c17", progs)],
        "all 16x16 ordered pairs of binary operators in 'a OP1 b OP2 c' with operands of three different types (uint8, int16, uint32: "
        "regrouping changes value or type), 4-operand chains, unary-vs-binary for 3x16 combinations, & vs &&, cast vs parenthesised "
        "expression for the 8 types, ?: nesting/right-associativity, assignment right-associativity, dangling else, statement nesting "
        "without braces, statement-expression vs compound statement, 24 identifier look-alikes of operand tokens, operator tokens "
        "without spaces.  Oracle: an independent precedence-climbing parser + C semantics; the solver shows for every program that "
        "the parse the compiler used yields the C value for all operand values (a mis-grouping C can observe differs for some values). "
        "Determinism: texts parsed in fresh processes under different PYTHONHASHSEED on fresh and reused parser objects.",
        wf_clauses=("c10:", "c11:"), post=post)
