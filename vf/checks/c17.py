"""C17 - the grammar parses behaviours with C structure, deterministically."""
import hashlib
import json
import os
import random
import subprocess
import sys
from . import famcheck
from .. import families, framework, corpus

_CHILD = r'''
import sys, json, hashlib, os, io, contextlib
REPO = os.environ.get("VERIF_REPO", "/repo")
os.chdir(REPO)
with contextlib.redirect_stdout(io.StringIO()):
    import rzilcompiler.Helper as H
    H.LOG_LEVEL = -1
    from rzilcompiler.Compiler import Compiler
    from rzilcompiler.ArchEnum import ArchEnum
    from rzilcompiler.Parser import parse_single, InsnParsingBundle
    c = Compiler(ArchEnum.HEXAGON)          # the REAL parser construction (Compiler.set_lark_parser)
texts = json.load(open(sys.argv[1]))
grammar = open(REPO + "/Resources/Hexagon/grammar.lark").read()
out = {}
for i, t in enumerate(texts):
    res = []
    try:
        res.append(hashlib.sha256(c.parser.parse(t).pretty().encode()).hexdigest()[:16])   # reused parser object
    except Exception as e:
        res.append("EXC:" + type(e).__name__)
    if i % 3 == 0:
        r = parse_single(InsnParsingBundle(grammar, "x", [t]))["x"]                          # fresh parser object, real pool worker code
        res.append("EXC:" + r.exception.name if r.exception else hashlib.sha256(r.asts[0].pretty().encode()).hexdigest()[:16])
    out[str(i)] = res
    if i % 5 == 0 and not res[0].startswith("EXC"):
        # multi-part bundles (repeated and distinct part texts): one tree per part, in the order given, each the tree of ITS text
        t2 = texts[(i + 1) % len(texts)]
        for parts in ([t, t2, t], [t2, t], [t, t]):
            want = []
            try:
                want = [hashlib.sha256(c.parser.parse(p_).pretty().encode()).hexdigest()[:16] for p_ in parts]
            except Exception:
                continue
            r = parse_single(InsnParsingBundle(grammar, "x", list(parts)))["x"]
            got = None if r.exception else [hashlib.sha256(a.pretty().encode()).hexdigest()[:16] for a in r.asts]
            if got != want or list(r.behaviors) != list(parts):
                out.setdefault("multi", []).append([i, len(parts), len(got or []), list(r.behaviors) == list(parts)])
print(json.dumps(out))
'''


def _determinism(rep, texts, nseeds):
    """Same texts parsed in fresh processes with different PYTHONHASHSEED, fresh and reused parser objects."""
    import tempfile
    d = tempfile.mkdtemp(prefix="vf_c17_")
    tf = os.path.join(d, "texts.json")
    cf = os.path.join(d, "child.py")
    with open(tf, "w") as f:
        json.dump(texts, f)
    with open(cf, "w") as f:
        f.write(_CHILD)
    procs = []
    for k in range(nseeds):
        env = dict(os.environ, PYTHONHASHSEED=str(k * 7919 + 1))
        if os.environ.get("VERIF_REPO"):
            env["PYTHONPATH"] = os.environ["VERIF_REPO"] + ":" + env.get("PYTHONPATH", "")
        procs.append(subprocess.Popen([sys.executable, cf, tf], stdout=subprocess.PIPE, stderr=subprocess.DEVNULL, env=env))
    outs = []
    for p in procs:
        o, _ = p.communicate()
        try:
            outs.append(json.loads(o.decode().strip().splitlines()[-1]))
        except Exception:  # noqa
            rep.harness_error("determinism child produced no result")
            outs.append(None)
    import shutil
    shutil.rmtree(d, ignore_errors=True)
    good = [o for o in outs if o is not None]
    for i, t in enumerate(texts):
        seen = {tuple(o[str(i)]) for o in good}
        flat = {h for tup in seen for h in tup}
        if len(flat) > 1:
            rep.add(f"parse:{t}", "violation", "nondeterministic", f"{len(flat)} different trees/outcomes over {len(good)} hash seeds "
                    f"and fresh/reused parser objects: {sorted(flat)[:4]}")
        else:
            rep.add(f"parse:{t}", "ok")
    for k, o in enumerate(good):
        for i, nparts, ngot, same_texts in o.get("multi", []):
            rep.add(f"parse-multi:{texts[i]}#seed{k}", "violation", "nondeterministic", f"a {nparts}-part bundle containing this text comes back from "
                    f"parse_single with {ngot} trees that are not the trees of its parts in the order given (texts kept in order: {same_texts})")
    rep.coverage["determinism"] = dict(texts=len(texts), processes=len(good), parser_objects="the Compiler's own parser object (reused) + a fresh parse_single() parser for every 3rd text",
                                       note="concrete runs (hash seed / process dimension is enumerated, not solved)")


def _structure_one(text):
    """Structural oracle: the compiler's parser must give T and its full parenthesisation the same tree."""
    from .. import parenth
    from ..cref import CSyntaxError, Unsupported
    try:
        t2, n = parenth.paren(text)
    except (CSyntaxError, Unsupported, RecursionError) as e:
        # outside the parenthesiser: still record whether the compiler's parser accepts the text (acceptance baseline)
        try:
            corpus.parse_stmt(text)
            return ("gap-parses", str(e)[:80], text, "")
        except Exception as e2:  # noqa
            return ("gap-rejected", type(e2).__name__, text, "")
    if n == 0:
        return ("trivial", "", text, t2)
    try:
        a = corpus.parse_stmt(text)
    except Exception as e:  # noqa
        return ("rejected", type(e).__name__, text, t2)
    try:
        b = corpus.parse_stmt(t2)
    except Exception as e:  # noqa
        return ("paren-rejected", f"{type(e).__name__}: {str(e)[:120]}", text, t2)
    if a == b:
        return ("same", "", text, t2)
    pa, pb = a.pretty().split("\n"), b.pretty().split("\n")
    k = next((i for i, (x, y) in enumerate(zip(pa, pb)) if x != y), min(len(pa), len(pb)))
    return ("differs", f"first difference at tree line {k}: {pa[k].strip() if k < len(pa) else '<end>'!r} vs {pb[k].strip() if k < len(pb) else '<end>'!r}", text, t2)


def _structure(rep, tier, progs):
    """Every family program, a mixed-family sample and every bundled behaviour part against its full parenthesisation."""
    B = corpus.load_behaviors()
    # parse-level acceptance: constructs the transformer rejects later must still PARSE as before (the grammar is the full C grammar)
    parse_only = families.c15(tier) + ["{ RxV = RsV ? RtV, RuV : 3; }", "{ RxV = RsV ? (RtV, RuV) : 3; }", "{ RxV = (RsV, RtV) ? 1 : 2; }", "{ RxV = RsV ? 1 : (RtV, 2); }",
                                      "{ for (i = 0, j = 1; i < 2; i++, j--) RxV = RxV + j; }", "{ RxV = sizeof(int32_t) + sizeof RsV; }", "{ RxV = -RsV ? ~RtV : !RuV; }",
                                      "{ int32_t a = RsV, b = RtV; RxV = a + b; }", "{ RxV = RsV; ; ; }", "{ { { } } }", "{ RxV = (int32_t)(int8_t)(RsV); }",
                                      "{ if (RsV) ; }", "{ RxV = RsV == RtV != RuV; }", "{ RxV = RsV < RtV < RuV; }", "{ RxV = a.b.c; }", "{ RxV = a->b->c; }",
                                      "{ RxV = f(g(h(RsV))); }", "{ RxV = f(RsV, (RtV, RuV)); }", "{ RxV = arr[RsV][RtV]; }", "{ RxV = *&RsV; }", "{ RxV = RsV ? : RtV; }"]
    texts = list(dict.fromkeys(progs + families.mixed(tier, 1500 if tier == "thorough" else 150, salt=17) + parse_only))
    items = [("prog", t) for t in texts] + [(f"insn:{n}/{i}", b) for n in sorted(B) for i, b in enumerate(B[n])]
    res = framework.pmap(_structure_one, [t for _, t in items], chunksize=8)
    cnt = {}
    import hashlib
    base = framework.load_baseline("c17_parse_ok.json")
    base = set(base) if base is not None else None
    parsed_ok = set()
    for (k, _), (v, detail, text, t2) in zip(items, res):
        cnt[v] = cnt.get(v, 0) + 1
        key = f"struct:{text}" if k == "prog" else f"struct:{k}"
        h = hashlib.sha256(text.encode()).hexdigest()[:16]
        if v in ("same", "trivial", "differs", "paren-rejected", "gap-parses"):
            parsed_ok.add(h)
        elif v == "rejected" and base is not None and h in base:
            # only texts INSIDE the reference's C subset (expressions, if / for / while / do, declarations): dropping e.g. `switch` or
            # pointer syntax from the grammar is a dialect decision, not a structural mis-parse
            rep.add("parse:" + (text if k == "prog" else k), "violation", "parse-acceptance",
                    f"a text the pinned grammar parses is now rejected by the parser ({detail})", c=text)
        if v == "differs":
            rep.add(key, "violation", "structure", f"the parser groups the text differently from C: tree(T) != tree(fully parenthesised T); {detail}",
                    c=text, parenthesised=t2)
        elif v == "paren-rejected":
            rep.add(key, "inconclusive", "paren-rejected", f"the fully parenthesised text is rejected by the parser: {detail}")
        elif v in ("same", "trivial"):
            rep.add(key, "ok")
        # gap / rejected: outside the oracle (vector / 128-bit behaviours the reference lexer does not cover; text the parser rejects)
    if os.environ.get("VERIF_WRITE_BASELINE"):
        # developer action: which texts the pinned grammar parses (a later parse-level rejection of one of them is reported)
        with open(os.path.join(framework.VERIF, "baselines", "c17_parse_ok.json"), "w") as f:
            json.dump(sorted(parsed_ok | (base or set())), f, indent=0)
    rep.coverage["structure_oracle"] = dict(
        counts=cnt, explanation="an independent precedence-climbing parser (vf/parenth.py, written from the C11 expression grammar) wraps every "
        "composite sub-expression of T in parentheses, leaving the statement structure as it is; '(' expr ')' is an inlined alternative of "
        "the compiler's grammar, so a parser that groups as C prescribes gives T and paren(T) the identical tree.  Catches regroupings "
        "that no value can observe.  No solver involved (tree equality); 'gap' = behaviours outside the reference lexer (HVX vectors, "
        "128-bit helpers, pointers); parse-level acceptance of every text (incl. the C15 constructs the transformer rejects later) is "
        "compared with baselines/c17_parse_ok.json")
    return cnt


def run(tier):
    progs = families.c17(tier)
    rng = random.Random(framework.seed())
    B = corpus.load_behaviors()
    names = sorted(n for n in B if len(B[n][0]) < 400)
    # behaviours with the constructs whose parse is ambiguous in the grammar ('{...};', empty statements, casts of signed operands,
    # statement-expressions) first, then a seeded sample of the rest
    prone = [n for n in names if any(("};" in b or "} ;" in b or "; ;" in b or "({" in b) for b in B[n])]
    own = ["{ { RxV = 1; }; RyV = RxV; }", "{ { { RxV = 1; }; }; }", "{ if (RsV) { RxV = 1; }; RyV = 2; }", "{ for (i = 0; i < 2; i++) { RxV = RxV + i; }; }",
           "{ ; ; RxV = 1; ; }", "{ RxV = (int32_t) -RsV; }", "{ RxxV = (size8s_t) -1; }", "{ RxxV = (uint64_t) +RssV; }", "{ RxV = (RsV) - RtV; }",
           "{ RxV = (int8_t) ~RsV; }", "{ RxV = ({ RyV = 3; RyV; }); }", "{ { int32_t q; q = RsV; RxV = q; }; }"]
    pick = rng.sample(prone, min(len(prone), 60 if tier == "quick" else 189))
    rest = [n for n in names if n not in set(pick)]
    texts = own + rng.sample(progs, 40 if tier == "quick" else 200) + [B[n][0] for n in pick] + \
        [B[n][0] for n in rng.sample(rest, 30 if tier == "quick" else 120)]
    nseeds = 8 if tier == "quick" else 32

    def post(rep, recs):
        _determinism(rep, texts, nseeds)
        _structure(rep, tier, progs)
    return famcheck.run(
        "C17", tier, [("c17", progs)],
        "all 16x16 ordered pairs of binary operators in 'a OP1 b OP2 c' with operands of three different types (uint8, int16, uint32: "
        "regrouping changes value or type), 4-operand chains, unary-vs-binary for 3x16 combinations, & vs &&, cast vs parenthesised "
        "expression for the 8 types, ?: nesting/right-associativity, assignment right-associativity, dangling else, statement nesting "
        "without braces, statement-expression vs compound statement, 24 identifier look-alikes of operand tokens, operator tokens "
        "without spaces.  Oracle: an independent precedence-climbing parser + C semantics; the solver shows for every program that "
        "the parse the compiler used yields the C value for all operand values (a mis-grouping C can observe differs for some values). "
        "Determinism: texts parsed in fresh processes under different PYTHONHASHSEED on fresh and reused parser objects.  Structure: "
        "every family program, a mixed-family sample and every bundled behaviour part must parse to the same tree as its full "
        "parenthesisation by an independent C parser (also catches regroupings no value can observe).",
        wf_clauses=("c10:", "c11:"), post=post)
