"""C09(b): the real simplify_* functions on symbolic literal values (SymInt), decided by z3 for ALL values of the operands'
types.  Returns report items; called from c09.run."""
import itertools
import os
import z3
from .. import corpus
from ..shim import symint
from ..shim.symint import SymInt, Ctx, W, FloatFold

LT = [(True, 32), (False, 32), (True, 64), (False, 64)]  # the four literal types the compiler assigns
TN = {(True, 32): "int", (False, 32): "unsigned", (True, 64): "long long", (False, 64): "unsigned long long"}


def common(ta, tb):
    (sa, wa), (sb, wb) = ta, tb
    if sa == sb:
        return (sa, max(wa, wb))
    ws, wu = (wa, wb) if sa else (wb, wa)
    return (False, wu) if wu >= ws else (True, ws)


def conv(v, ft, tt):
    if tt[1] == ft[1]:
        return v
    if tt[1] < ft[1]:
        return z3.Extract(tt[1] - 1, 0, v)
    return z3.SignExt(tt[1] - ft[1], v) if ft[0] else z3.ZeroExt(tt[1] - ft[1], v)


def _mk(ta, tb=None):
    from rzilcompiler.Transformer.RZILTransformer import RZILTransformer
    from rzilcompiler.Transformer.Pures.Number import Number
    from rzilcompiler.Transformer.ValueType import ValueType
    from rzilcompiler.ArchEnum import ArchEnum
    t = RZILTransformer(ArchEnum.HEXAGON)
    va = z3.BitVec("va", ta[1])
    pre = [va >= 0] if ta[0] else []  # a literal is a non-negative number that fits its type
    a = t.add_op(Number("const_a", SymInt(z3.ZeroExt(W - ta[1], va)), ValueType(*ta)))
    if tb is None:
        return t, a, va, pre
    vb = z3.BitVec("vb", tb[1])
    pre += [vb >= 0] if tb[0] else []
    b = t.add_op(Number("const_b", SymInt(z3.ZeroExt(W - tb[1], vb)), ValueType(*tb)))
    return t, a, b, va, vb, pre


def _val(num, w):
    v = num.get_val()
    e = v.e if isinstance(v, SymInt) else z3.BitVecVal(int(v), W)
    return z3.Extract(w - 1, 0, e)


XN = [0]
XS = {}  # cvc5 verdicts on the queries z3 answered unsat (per worker process)


def _solve(cons):
    s = z3.Solver()
    s.set("timeout", 60000)
    s.add(*cons)
    r = str(s.check())
    XN[0] += 1
    if r == "unsat" and (os.environ.get("VERIF_TIER") == "thorough" or XN[0] % 6 == 0):  # second solver, same assertions
        from .. import tv
        x = tv.cvc5_decide(s.to_smt2(), 10000)
        XS[x.split(":")[0]] = XS.get(x.split(":")[0], 0) + 1
    return r, (s.model() if r == "sat" else None)


def check_arith(ta, tb, op):
    worst = ("ok", "unsat", None)
    for dec in ([False], [True]) if op == "/" else ([],):
        symint.set_ctx(Ctx(list(dec)))
        t, a, b, va, vb, pre = _mk(ta, tb)
        try:
            r = t.simplify_arithmetic_expr([a, op, b])
        except FloatFold as e:
            return ("violation", str(e), None)
        except Exception as e:  # noqa - rejecting by raising is the accepted behaviour for what it cannot fold exactly
            worst = ("ok-rejected", f"{type(e).__name__}", None) if worst[0] == "ok" else worst
            continue
        v = r.get_val()
        if isinstance(v, symint.SymFloat):
            # the folder went through Python's true division and kept a float: nothing integral was produced here; whether the
            # compiler then rejects it is decided end to end by the literal-division programs of the TV family
            worst = ("ok-rejected", "float value left for the renderer to reject", None) if worst[0] == "ok" else worst
            continue
        tc = common(ta, tb)
        got_t = (bool(r.value_type.signed), int(r.value_type.bit_width))
        if got_t != tc:
            return ("violation", f"result type {got_t} != C11 common type {tc}", None)
        x, y = conv(va, ta, tc), conv(vb, tb, tc)
        if op == "/":
            want = (x / y) if tc[0] else z3.UDiv(x, y)
            pre = pre + [y != 0]
        else:
            want = {"+": x + y, "-": x - y, "*": x * y}[op]
        res, m = _solve(pre + symint.CTX.pc + [_val(r, tc[1]) != want])
        if res == "sat":
            return ("violation", f"folded value differs from the C value for a={m.eval(va)} b={m.eval(vb)}", m)
        if res != "unsat":
            worst = ("inconclusive", res, None)
    return worst


def check_unary(ta, uop):
    symint.set_ctx(Ctx([True]))
    out = []
    for dec in ([True], [False]):
        symint.set_ctx(Ctx(list(dec)))
        t, a, va, pre = _mk(ta)
        try:
            u = t.simplify_unary_expr([uop, a])
        except Exception as e:  # noqa
            return ("ok-rejected", type(e).__name__, None)
        if u is None:
            return ("ok-not-folded", "", None)
        pa = (ta[0], max(ta[1], 32))
        tu = (bool(u.value_type.signed), int(u.value_type.bit_width))
        if tu != pa:
            return ("violation", f"result type {tu} != promoted operand type {pa}", None)
        x = conv(va, ta, pa)
        want = {"-": -x, "~": ~x, "+": x}[uop]
        res, m = _solve(pre + symint.CTX.pc + [_val(u, pa[1]) != want])
        if res == "sat":
            return ("violation", f"folded value differs for a={m.eval(va)}", m)
        if res != "unsat":
            return ("inconclusive", res, None)
        if not symint.CTX.taken:
            break
    return ("ok", "unsat", None)


def check_compare(ta, tb, cop):
    worst = ("ok", "unsat", None)
    for dec in ([True], [False]):
        symint.set_ctx(Ctx(list(dec)))
        t, a, b, va, vb, pre = _mk(ta, tb)
        try:
            r = t.simplify_compare_expr([a, cop, b])
        except Exception as e:  # noqa
            return ("ok-rejected", type(e).__name__, None)
        tc = common(ta, tb)
        x, y = conv(va, ta, tc), conv(vb, tb, tc)
        sg = tc[0]
        want = {"<": (x < y) if sg else z3.ULT(x, y), ">": (x > y) if sg else z3.UGT(x, y), "<=": (x <= y) if sg else z3.ULE(x, y),
                ">=": (x >= y) if sg else z3.UGE(x, y), "==": x == y, "!=": x != y}[cop]
        got = z3.BoolVal(bool(r.get_val()))
        res, m = _solve(pre + symint.CTX.pc + [got != want])
        if res == "sat":
            return ("violation", f"folded truth value differs from C for a={m.eval(va)} b={m.eval(vb)}", m)
        if res != "unsat":
            worst = ("inconclusive", res, None)
    return worst


def check_conditional(ta):
    """constant condition: the selected arm is the one C selects (cond != 0) for every value of the literal."""
    from rzilcompiler.Transformer.Pures.Number import Number
    from rzilcompiler.Transformer.ValueType import ValueType
    for dec in ([True], [False]):
        symint.set_ctx(Ctx(list(dec)))
        t, c, va, pre = _mk(ta)
        x = t.add_op(Number("const_x", 11, ValueType(True, 32)))
        y = t.add_op(Number("const_y", 22, ValueType(True, 32)))
        r = t.simplify_conditional_expr([c, x, y])
        picked_then = r is x
        res, m = _solve(pre + symint.CTX.pc + [z3.BoolVal(picked_then) != (va != 0)])
        if res == "sat":
            return ("violation", f"wrong arm selected for cond={m.eval(va)}", m)
        if res != "unsat":
            return ("inconclusive", res, None)
    return ("ok", "unsat", None)


def run_all(rep):
    corpus.quiet_imports()
    n = 0
    jobs = []
    for ta, tb in itertools.product(LT, LT):
        for op in ("+", "-", "*", "/"):
            jobs.append((f"shim:simplify_arithmetic_expr:{TN[ta]} {op} {TN[tb]}", lambda ta=ta, tb=tb, op=op: check_arith(ta, tb, op)))
        for cop in ("<", ">", "<=", ">=", "==", "!="):
            jobs.append((f"shim:simplify_compare_expr:{TN[ta]} {cop} {TN[tb]}", lambda ta=ta, tb=tb, cop=cop: check_compare(ta, tb, cop)))
    for ta in LT:
        for uop in ("-", "~", "+"):
            jobs.append((f"shim:simplify_unary_expr:{uop} {TN[ta]}", lambda ta=ta, uop=uop: check_unary(ta, uop)))
        jobs.append((f"shim:simplify_conditional_expr:{TN[ta]} ? x : y", lambda ta=ta: check_conditional(ta)))
    for key, fn in jobs:
        n += 1
        try:
            st, detail, m = fn()
        except Exception as e:  # noqa
            rep.harness_error(f"{key}: {type(e).__name__}: {e}")
            continue
        rep.count_query(st)
        if st == "violation":
            rep.add(key, "violation", "fold", detail)
        elif st == "inconclusive":
            rep.add(key, "inconclusive", "solver", detail)
        else:
            rep.add(key, "ok", st, detail)
    for k, v in sorted(XS.items()):
        rep.count_query("cvc5:" + k, v)
    if XS.get("sat"):
        rep.harness_error(f"SymInt shim: z3 answers unsat, cvc5 answers sat on {XS['sat']} of the same assertion sets")
    return n
