"""C02 - integer operators follow C11 promotion / common type / operator semantics."""
from . import famcheck
from .. import families


def run(tier):
    from .. import corpus
    corpus.EXTRA_SUBS = families.c02_subs()   # operators on narrow PARAMETERS (registered through Compiler.add_sub_routine)
    return famcheck.run(
        "C02", tier, [("c02", families.c02(tier)), ("mixed", families.mixed(tier, 2000 if tier == "thorough" else 120, salt=2))],
        "depth 1: all 8x8 operand type pairs x 16 binary operators, 8 types x 3 unary operators, ?: over 8x8 arm types x 2 "
        "condition kinds (exhaustive); depth 2: all ordered pairs of 14 operators x type triples (seeded covering sample in quick, "
        "all 4^3 triples over {u8,s16,u32,s64} in thorough); depth 3-4 seeded-random trees. Result observed through a signed 64-bit "
        "destination so value AND result type (width/signedness) are visible.",
        wf_clauses=("c10:",))
