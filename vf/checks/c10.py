"""C10 - see wfcommon.py / vf/wf.py."""
from . import wfcommon


def run(tier):
    from ..families import wf_family
    return wfcommon.run("C10", tier, wf_family("C10", tier))
