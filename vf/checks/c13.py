"""C13 - reported instruction attributes are exactly those of the instruction itself."""
import itertools
import os
from .. import chrun, framework, corpus, corpus_run
from ..framework import Report

HARNESS = os.path.join(framework.VERIF, "vf", "ch", "c13_harness.py")
CONSTRUCTS = [
    ("if", None),  # wraps the rest
    ("newletter", "RxV = RxV + PtN;"),
    ("newexplicit", "RxV = RxV ^ P0_NEW;"),
    ("newalias", "RxV = RxV - HEX_REG_ALIAS_LR_NEW;"),
    ("load", "RxV = RxV + (int32_t)mem_load_u8(RsV);"),
    ("store", "mem_store_u16(RsV, RxV);"),
    ("jump", "JUMP(RsV);"),
    ("predletter", "PdV = RxV;"),
    ("predexplicit1", "P1 = RxV;"),
    ("predexplicit3", "P3 = RsV;"),
]
DIRTY = "{ if (P0_NEW & 1) { P2 = RsV; P0 = RsV; mem_store_u8(RsV, mem_load_u8(RtV)); JUMP(RtV); } }"
# predecessors that FAIL, each right after it has set an attribute flag and (some) before any operand was registered
DIRTY_FAILING = ["{ G1_NEW = RsV; }", "{ JUMP(undefined_target_x); }", "{ mem_store_u8(undefined_addr_x, 1); }", "{ RdV = OdN; }", "{ if (undefined_cond_x) { } }",
                 "{ P1 = undefined_val_x; }", "{ RdV = mem_load_u8(undefined_addr_x); }", "{ RdV = PzN + undefined_y; }", "{ S3_NEW = 1; }", "{ P0_NEW = undefined_q(); }"]


def three_event_harness():
    """Generated harness (under /verif/.cache, rebuilt on every run): step_with_three_events split by the first token."""
    d = os.path.join(framework.VERIF, ".cache", "ch")
    os.makedirs(d, exist_ok=True)
    path = os.path.join(d, "c13_three_events.py")
    src = ["import sys", f"sys.path.insert(0, {os.path.join(framework.VERIF, 'vf', 'ch')!r})", "from c13_harness import _run, _ok", ""]
    for t0 in range(10):
        src += [f"def three_events_first_token_{t0}(pre_inst: int, pre_cls: int, f0: bool, k0: int, t1: int, f1: bool, k1: int, t2: int, f2: bool, k2: int) -> bool:",
                '    """',
                "    pre: -1 <= pre_inst <= 3 and -1 <= pre_cls <= 3",
                "    pre: -1 <= k0 <= 4 and 0 <= t1 < 10 and -1 <= k1 <= 4 and 0 <= t2 < 10 and -1 <= k2 <= 4",
                "    post: __return__",
                '    """',
                f"    return _ok(*_run((True, False, True, False, True, True), pre_inst, pre_cls, [({t0}, f0, k0), (t1, f1, k1), (t2, f2, k2)]))",
                "", ""]
    with open(path, "w") as f:
        f.write("\n".join(src))
    return path


def programs():
    out = []
    names = [c[0] for c in CONSTRUCTS]
    for bits in itertools.product((0, 1), repeat=len(CONSTRUCTS)):
        body = " ".join(c[1] for c, b in zip(CONSTRUCTS[1:], bits[1:]) if b) or "RxV = RxV + 1;"
        out.append("{ if (RuV > 0) { " + body + " } }" if bits[0] else "{ " + body + " }")
    return out


def _attr_prog(item):
    """Compile on a USED transformer (an attribute-rich behaviour is compiled right before) through transform_insn."""
    from rzilcompiler.Parser import ParsedInsn
    from ..cref import attributes_of
    texts = item
    c = corpus.compiler()
    import zlib
    k = zlib.crc32(" ".join(texts).encode()) % (len(DIRTY_FAILING) + 2)
    for pre in ([DIRTY] if k >= len(DIRTY_FAILING) else [DIRTY, DIRTY_FAILING[k]]):
        try:
            c.compile_c_stmt(pre)
        except Exception:  # noqa
            pass
    try:
        asts = [corpus.parse_stmt(t) for t in texts]
        r = c.transform_insn("vf_attr_test", ParsedInsn("vf_attr_test", asts, list(texts)))
        metas = [list(m) for m in r.meta]
    except Exception as e:  # noqa
        return dict(texts=texts, verdict="rejected", detail=f"{type(e).__name__}: {str(e)[:100]}")
    bad = []
    for t, m in zip(texts, metas):
        want = attributes_of(t)
        if set(m) != want or len(m) != len(set(m)):
            bad.append(f"part '{t[:80]}': reported {sorted(m)} vs implied {sorted(want)}")
    return dict(texts=texts, verdict="bad" if bad else "ok", detail=" ; ".join(bad), metas=metas)


def _attr_insn(item):
    from ..cref import attributes_of, Unsupported, CSyntaxError
    name, behs = item
    subs, macs, noped = corpus_run.res()
    c = corpus_run.compile_insn(name, behs)
    if c["status"] != "ok":
        return []
    out = []
    for i, (b, m) in enumerate(zip(behs, c["meta"])):
        key = f"insn:{name}/{i}"
        if c["insn_name"] in noped:
            out.append(dict(key=key, verdict="ok" if m == ["HEX_IL_INSN_ATTR_NONE"] else "bad",
                            detail=f"no-op list instruction reports {m}"))
            continue
        try:
            want = attributes_of(b)
        except (Unsupported, CSyntaxError) as e:
            out.append(dict(key=key, verdict="gap", detail=str(e)))
            continue
        ok = set(m) == want and len(m) == len(set(m))
        out.append(dict(key=key, verdict="ok" if ok else "bad", detail="" if ok else f"reported {sorted(m)} vs implied {sorted(want)}", c=b))
    return out


def _attr_alias(item):
    alias, behs, name = item
    a = corpus_run.compile_insn(alias, behs)
    b = corpus_run.compile_insn(name, behs)
    key = f"alias:{alias}"
    if a["status"] != "ok" or b["status"] != "ok":
        if a["status"] == b["status"]:
            return dict(key=key, verdict="ok", detail="both rejected")
        return dict(key=key, verdict="bad", detail=f"{alias}: {a['status']} but {name}: {b['status']}")
    if a["insn_name"] != name:
        return dict(key=key, verdict="gap", detail=f"alias resolves to {a['insn_name']}")
    if a["meta"] != b["meta"] or a["rzil"] != b["rzil"]:
        return dict(key=key, verdict="bad", detail=f"{alias} resolves to {name} but reports {a['meta']} / {a['rzil'][0][:40]!r} where {name} "
                                                   f"itself reports {b['meta']} / {b['rzil'][0][:40]!r}")
    return dict(key=key, verdict="ok", detail="")


def run(tier):
    rep = Report("C13", tier, "other")
    thorough = tier == "thorough"
    # (a) inductive step on the real state machine, arbitrary pre-state
    res = chrun.run_harness(HARNESS, 240, thorough=False)
    nconf = chrun.report(rep, HARNESS, res, "C13")
    if thorough:
        # three events: one CrossHair condition per first token (the path tree is split 10 ways and explored in parallel)
        gen = three_event_harness()
        res3 = chrun.run_harness(gen, 1500, thorough=True)
        nconf += chrun.report(rep, gen, res3, "C13")
        res = res + res3
    # (b) construct -> event mapping: all 2^10 combinations on a used transformer + two-part instructions
    progs = programs()
    # assignment targets of every register kind: only P registers are predicate writes
    targets = ["HEX_REG_ALIAS_PKTCOUNT = RssV;", "HEX_REG_ALIAS_LR = RsV;", "HEX_REG_ALIAS_SP = RsV;", "HEX_REG_ALIAS_USR = RsV;", "C1 = RsV;", "M0 = RsV;",
               "R1:0 = RssV;", "R3 = RsV;", "CdV = RsV;", "MuV = RsV;", "RddV = RssV;", "int32_t PdX = RsV; RxV = PdX;", "P0 = RsV; P0 = RtV;",
               "PeV = RsV;", "PuV = RsV;", "PtV |= RsV;", "PvV = 1;", "PxV = RsV;", "PsV = PtV;", "PyV ^= RsV;", "PuV = PuV & RsV;", "PdV |= RsV;", "P1 |= RsV;",
               "RxV = PuV; PuV = RxV;", "P3 = RsV; P2 = RsV; P1 = RsV; P0 = RsV;", "RxV = P1; RyV = PtV;", "HEX_REG_ALIAS_FRAMEKEY = RsV; P1 = RtV;"]
    progs = progs + ["{ " + t + " }" for t in targets] + ["{ if (RuV > 0) { " + t + " } }" for t in targets]
    # untargeted complement: typed random bodies whose leaves / targets are operands of every kind (mixed family, operand variant)
    # and store/load shapes that feed each other; the implied attribute set comes from my own AST of the same text
    from .. import families
    shapes = ["{ mem_store_u8(RsV, mem_load_u8(RtV)); }", "{ mem_store_s16(RsV, mem_load_s16(RtV)); }", "{ mem_store_u32(RsV, (int32_t)mem_load_u8(RtV)); }",
              "{ EA = RsV; mem_store_u64(EA, mem_load_u64(EA)); }", "{ mem_store_u16(mem_load_u32(RsV), RtV); }", "{ RdV = mem_load_u8(mem_load_u32(RsV)); }",
              "{ JUMP(mem_load_u32(RsV)); }", "{ if (mem_load_u8(RsV)) { RdV = 1; } }", "{ PdV = mem_load_u8(RsV); }", "{ mem_store_u8(RsV, PtN); }",
              "{ mem_store_u8(RsV, P0_NEW); }", "{ RdV = (RsV > 0) ? mem_load_s8(RtV) : 0; }", "{ for (i = 0; i < 2; i++) { RxV = RxV + i; } }",
              "{ for (i = 0; i < 2; i++) { mem_store_u8(RsV + i, RtV); } }", "{ for (i = 0; i < 2; i++) { if (RsV) { RxV = i; } } }",
              "{ RdV = (RsV > 0) ? RtV : RuV; }", "{ RdV = RsV && RtV; }", "{ RdV = ({ RxV = RxV + 1; RxV; }); }", "{ RdV = clz32(RsV); }"]
    progs = progs + shapes + families.mixed(tier, 1500 if thorough else 200, salt=13, operands=True) + families.mixed(tier, 500 if thorough else 100, salt=131)
    singles = [(p,) for p in progs]
    pairs = [(progs[i], progs[(i * 37 + 11) % len(progs)]) for i in range(0, len(progs), 1 if thorough else 4)]
    recs = framework.pmap(_attr_prog, singles + pairs, chunksize=8)
    nprog = 0
    for r in recs:
        key = "prog:" + " || ".join(r["texts"])
        if r["verdict"] == "ok":
            nprog += 1
            rep.add(key, "ok")
        elif r["verdict"] == "bad":
            rep.add(key, "violation", "attributes", r["detail"], texts=r["texts"])
        else:
            rep.add(key, "inconclusive", "rejected", r["detail"])
    # (c) the whole corpus, no-op list, unimplemented marker
    B = corpus.load_behaviors()
    ncorp = 0
    for rr in framework.pmap(_attr_insn, [(n, B[n]) for n in sorted(B)], chunksize=8):
        for r in rr:
            if r["verdict"] == "ok":
                ncorp += 1
                rep.add(r["key"], "ok")
            elif r["verdict"] == "bad":
                rep.add(r["key"], "violation", "attributes", r["detail"], c=r.get("c", ""))
            else:
                rep.add(r["key"], "inconclusive", "reference-gap", r["detail"])
    # the same instruction under each documented alias spelling of its name (dep_X, IMPORTED_X, undocumented_X, X_undocumented):
    # the compiler resolves the alias to X, so the reported attributes (and for the no-op list: NOP + NONE) must be those of X
    _, _, noped = corpus_run.res()
    alias_names = sorted(set(noped) & set(B)) + [n for n in ("A2_add", "L2_loadri_io", "J2_jumpt", "S2_storerb_io", "C2_cmpeq") if n in B]
    jobs = [(fmt_ % n, B[n], n) for n in alias_names for fmt_ in ("dep_%s", "IMPORTED_%s", "undocumented_%s", "%s_undocumented")]
    for r in framework.pmap(_attr_alias, jobs, chunksize=2):
        if r["verdict"] == "ok":
            ncorp += 1
            rep.add(r["key"], "ok")
        elif r["verdict"] == "bad":
            rep.add(r["key"], "violation", "attributes", r["detail"])
        else:
            rep.add(r["key"], "inconclusive", "rejected", r["detail"])
    corpus.quiet_imports()
    from rzilcompiler.Compiler import RZILInstruction
    u = RZILInstruction.get_unimplemented_rzil_instr("X_test")
    if u.meta != [["HEX_IL_INSN_ATTR_INVALID"]]:
        rep.add("unimplemented-marker", "violation", "attributes", f"unimplemented instruction reports {u.meta}")
    else:
        rep.add("unimplemented-marker", "ok")
    rep.coverage.update(
        explanation="(a) CrossHair on the real HexagonTransformerExtension: arbitrary pre-state (6 flags, leftover predicate entry on "
                    "instance and on class) -> reset_flags() -> 0..2 (thorough: 3) symbolic set_token_meta_data events -> get_meta() equals the "
                    "specification computed from the events alone: one inductive step covers histories of any length.  (b) all 2^10 "
                    "combinations of the attribute-relevant constructs compiled through transform_insn on a USED transformer, plus two-part "
                    "instructions, compared with the attribute set derived from my own AST of the same text.  (c) every accepted corpus "
                    "part, the no-op list (NONE) and the unimplemented marker (INVALID).",
        bounds=dict(events="<= 2 (quick) / <= 3 (thorough)", tokens=10, pred_num="-1..4", pre_state="flags arbitrary, <= 1 leftover predicate each"),
        functions_encoded=["HexagonTransformerExtension.reset_flags/set_token_meta_data/set_*/get_meta/get_noped_meta"],
        evaluations=len(recs) + ncorp + len(res), distinct_nontrivial=nprog + ncorp, conditions_confirmed=nconf,
        rule="(a) one CrossHair condition per event count; (b) one program per construct combination; (c) one item per corpus part")
    rep.samples = [dict(function=r["name"], verdict=r["verdict"], seconds=r["time"]) for r in res] + [recs[5]["texts"], recs[300]["texts"]]
    rep.assumptions = ["CrossHair/z3 models of Python bools, ints and lists", "the construct -> callback mapping has no value dimension: "
                       "it is enumerated (b, c), only (a) is solver-decided"]
    return rep.finish({"conditions confirmed": (nconf, 4 if not thorough else 10), "construct combinations agreeing": (nprog, 400), "corpus parts agreeing": (ncorp, 1500)})
