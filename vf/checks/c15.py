"""C15 - nothing in the source is silently dropped: translate it or raise."""
from . import famcheck
from .. import families


def run(tier):
    return famcheck.run(
        "C15", tier, [("c15", families.c15(tier)), ("mixed", families.mixed(tier, 1500 if tier == "thorough" else 80, salt=15, stmt_expr=False))],
        "64 statements using constructs of the full C grammar (break, continue, goto, labels, return, comma expressions, while, "
        "do-while, switch/case/default, unknown functions with and without arguments, pointer/array/member access, prefix ++/--, "
        "for clauses without condition or with commas, multiple declarators, arrays, typedef, compound literals, strings, floats, "
        "octal/long literals) placed at 4 statement positions of carrier programs (top level, loop body, if arm, if inside a loop) and "
        "10 expressions at 6 expression positions.  Two oracles: constructs the C reference gives a meaning to (break, continue, "
        "comma, while, do) - if the compiler returns code it must be EQUIVALENT for all states (a dropped break or an un-sequenced "
        "'a = 1, b = 2' is a state difference found by the solver); for the others the reference raises Unsupported and the compiler "
        "must raise too.  In addition every declared effect must be reachable from the returned effect (emitted but never sequenced).",
        wf_clauses=("c10:", "c11:", "c12:effect-uses"))
