"""C03 - casts and implicit conversions preserve the C value."""
from . import famcheck
from .. import families, corpus


def run(tier):
    corpus.EXTRA_SUBS = families.c03_subs()
    return famcheck.run(
        "C03", tier, [("c03", families.c03(tier)), ("mixed", families.mixed(tier, 2000 if tier == "thorough" else 120, salt=3))],
        "all 8x8 (source,target) integer type pairs in the contexts explicit cast, initialiser, assignment to a declared local, "
        "sub-routine argument and sub-routine return (test sub-routines registered through the public Compiler.add_sub_routine), "
        "each source type into 32/64-bit/predicate/read-write registers, bit-field macro arguments and memory stores of every "
        "width/sign; boolean sources in every context; chains of two (all 64) and three conversions (96 seeded in quick, all 512 in thorough)",
        wf_clauses=("c10:",))
