"""C07 - operands are bound to the right architectural resource, width and .new flag."""
from . import famcheck
from .. import families


def run(tier):
    return famcheck.run(
        "C07", tier, [("c07", families.c07(tier)), ("mixed", families.mixed(tier, 1500 if tier == "thorough" else 100, salt=7, operands=True))],
        "every operand spelling of my own table of the Hexagon operand syntax (written from QEMU's hex_common.py, not from "
        "grammar.lark): class {R,P,C,M,N} x access letter {s,t,u,v,w,d,e,x,y,z} x single/pair x V/N; explicit Rn/Pn/Cn/Mn/Gn/Sn "
        "and pairs, with and without _NEW; 21 alias names with and without _NEW; the 8 immediate letters; 8 load and 8 store forms; "
        "JUMP / PC forms - each in read, write and read-after-write position.  Solver: final states equal for all bank contents "
        "(a wrong class constant, pair width, .new flag, immediate signedness, load width or address differs for some contents). "
        "Binding clause: the operand slots the emitted READ block resolves (ISA2REG/EXPLICIT2OP/ALIAS2OP/NREG2OP arguments, incl. "
        "the new flag) are exactly the operands the behaviour names by an independent token classification.",
        wf_clauses=("c10:",), item_defaults=dict(bindings=True))
