"""Shared driver of the well-formedness checks C10 / C11 / C12 (corpus, sub-routines, family programs)."""
import collections
from .. import corpus, framework, corpus_run
from ..framework import Report

FMTS = ("READ_STATEMENTS", "EXEC_CLASSES")
TITLE = {"c10": "sort constraints (RzIL typing) of every subterm of every arm/loop body",
         "c11": "text facts: declaration-or-return statements, declared once and before use, known macros, metadata flags, getters",
         "c12": "ownership: one un-DUP'ed use per pure, one use per effect, nothing initialised left unused"}


def _wf_prog(item):
    """Family program through compile_stmt in both layouts."""
    from .. import wf
    from ..cref import optable
    text, fmts = item
    subs, macs, noped = corpus_run.res()
    out = []
    for fmt in fmts:
        c = corpus.compile_stmt(text, fmt)
        if c[0] != "ok":
            out.append(dict(key=f"prog:{text}", fmt=fmt, verdict="rejected", problems=[]))
            continue
        optab = optable(text, [d["code"] for d in subs.values()])
        probs = wf.check_body(c[1], optab, corpus_run.sub_sigs(fmt))
        # companion record as the compiler builds it for an instruction part
        from rzilcompiler.Compiler import RZILInstruction
        ins = RZILInstruction("vf_prog", [c[1]], [c[2]], [""])
        ids = corpus_run.code_identifiers(c[1])
        if "hi" in ids and not ins.needs_hi[0]:
            probs.append(("c11:needs-hi", "text mentions hi but needs_hi is false"))
        if "pkt" in ids and not ins.needs_pkt[0]:
            probs.append(("c11:needs-pkt", "text mentions pkt but needs_pkt is false"))
        out.append(dict(key=f"prog:{text}", fmt=fmt, verdict="ok", problems=probs, il=c[1] if probs else "", c=text, time=wf.WF_SECONDS[0]))
        wf.WF_SECONDS[0] = 0.0
    return out


def run(prop, tier, family_programs=()):
    from .. import families
    corpus.EXTRA_SUBS = families.wf_subs()
    pfx = prop.lower() + ":"
    rep = Report(prop, tier, "other")
    B = corpus.load_behaviors()
    names = sorted(B)
    recs = [r for rr in framework.pmap(corpus_run.wf_insn, [(n, B[n], FMTS) for n in names], chunksize=4) for r in rr]
    recs += [r for rr in framework.pmap(corpus_run.wf_subs, list(FMTS)) for r in rr]
    progs = list(family_programs)
    if progs:
        recs += [r for rr in framework.pmap(_wf_prog, [(p, FMTS) for p in progs], chunksize=8) for r in rr]
    bodies = 0
    getters = collections.defaultdict(list)
    for r in recs:
        if r["verdict"] != "ok":
            continue
        bodies += 1
        rep.solver_time += r.get("time", 0) or 0
        if prop != "C10":
            rep.count_query("ground-facts-hold" if not [p for p in r["problems"] if p[0].startswith(pfx)] else "ground-fact-violated")
        key = f"{r['key']}@{r['fmt']}"
        mine = [p for p in r["problems"] if p[0].startswith(pfx)]
        inc = [p for p in r["problems"] if p[0] == "inconclusive"]
        if prop == "C11" and r.get("getter") and r["fmt"] == FMTS[0]:
            getters[r["getter"]].append(r["key"])
        if mine:
            for cl in sorted({p[0] for p in mine}):
                rep.add(key, "violation", cl, " ; ".join(p[1] for p in mine if p[0] == cl)[:400], il=r.get("il", ""), c=r.get("c", ""))
        elif inc and prop == "C10":
            rep.add(key, "inconclusive", "solver", inc[0][1])
        else:
            rep.add(key, "ok")
        if prop == "C10":
            rep.count_query("sat" if not any(p[0] == "c10:ill-sorted" for p in r["problems"]) else "unsat")
    if prop == "C11":
        from . import c11_shim
        nshim = c11_shim.run_all(rep)
        rep.coverage["shim_metadata"] = dict(
            queries=nshim, buffer_bytes=c11_shim.N,
            explanation="the REAL RZILInstruction.__init__ (needs_hi: re.search, needs_pkt: substring test) and "
            "SubRoutine.check_for_bundle_usage run on a symbolic code string shaped like an emitted body (starts with a newline, ends "
            "with ';'); for every outcome of their tests z3 decides: identifier token hi/pkt occurs => flag true / prologue declares it")
        for g, ks in getters.items():
            if len(ks) > 1:
                rep.add(f"getter:{g}", "violation", "c11:getter-unique", f"getter name {g} used by {ks}")
    rep.coverage.update(
        explanation=f"{TITLE[prop.lower()]}; bodies = every accepted corpus part and every sub-routine body in both output layouts"
                    + (f" + {len(progs)} generated programs" if progs else ""),
        evaluations=bodies, distinct_nontrivial=len({r['key'] for r in recs if r['verdict'] == 'ok'}),
        rule="one body per (behaviour part | sub-routine | generated program) x layout; distinct = distinct source texts",
        exhaustive=True, layouts=list(FMTS), family_programs=len(progs),
        functions_encoded=["the emitted text of Compiler.transform_insn / compile_c_stmt / compile_sub_routine (every il_init_var / il_write / "
                           "il_exec / emit_* of the Pures, Effects and Hybrids that produced it)", "RZILInstruction.__init__ (metadata flags)",
                           "SubRoutine.il_init(DEF) / get_parameter_value_types"],
        bounds=dict(bodies="every accepted corpus part, every sub-routine body, every family program, in both layouts (no sampling)",
                    sort_variables="one (kind, width) pair of z3 Int variables per subterm; widths unbounded integers",
                    solver=("one z3 satisfiability query per body over the sort constraints; unsat core names the violated rules" if prop == "C10" else
                            "the facts of this property are ground (counts and orders over the parsed text): no search is left for the solver; "
                            "solver_wall_s is the analysis time incl. the shared sort query")))
    rep.samples = [f"{r['key']}@{r['fmt']}" for r in recs[::max(1, len(recs) // 8)]][:10]
    rep.assumptions = ["my front end's model of the emitted C dialect (declaration-with-initialiser statements)",
                       "RzIL typing rules as encoded in vf/wf.py (mirror of rz_il_validate)",
                       "operand widths from the behaviour's own operand tokens"]
    return rep.finish({"bodies analysed": (bodies, 3000)})
