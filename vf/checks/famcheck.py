"""Generic driver for the family-based TV checks."""
import json
import os
from .. import framework, family_run
from ..framework import Report


def run(prop, tier, families_, explanation, assumptions=(), wf_clauses=(), item_defaults=None, floor=None,
        post=None, level="translation_validation", hybs=(1000,)):
    """families_: list of (name, [programs]) ."""
    rep = Report(prop, tier, level)
    total = 0
    allrecs = []
    per = {}
    for name, progs in families_:
        d = dict(item_defaults or {})
        if tier == "thorough":
            d.setdefault("timeout_ms", 60000)
            d.setdefault("unroll", 17)
        recs = family_run.run_family(rep, name, progs, d, wf_clauses=wf_clauses, hybs=hybs)
        per[name] = len(recs)
        total += len(recs)
        allrecs += recs
        if os.environ.get("VERIF_WRITE_BASELINE"):
            # developer action (never part of a registered command): record which programs the pinned tree rejects
            path = os.path.join(framework.VERIF, "baselines", "family_rejected.json")
            base = framework.load_baseline("family_rejected.json", {})
            base[name] = sorted(set(base.get(name, [])) | set(family_run.rejected_hashes(recs)))
            with open(path, "w") as f:
                json.dump(base, f, indent=0, sort_keys=True)
    if post:
        post(rep, allrecs)
    # translator validation: my C reference vs gcc -fwrapv, my symbolic domain vs my concrete domain (seeded states)
    import random as _random
    from .. import gccval
    rng = _random.Random(framework.seed() + 99)
    accepted = [r["c"] for r in allrecs if r["verdict"] == "equiv"]
    sample = rng.sample(accepted, min(len(accepted), 400 if tier == "thorough" else 80))
    gv = framework.pmap(gccval.validate_one, [(p, framework.seed() * 1000 + i) for i, p in enumerate(sample)], chunksize=4)
    for st, detail in gv:
        if st == "disagree":
            rep.harness_error("C reference disagrees with gcc: " + detail)
    dv = framework.pmap(gccval.domains_agree, [(p, framework.seed() * 1000 + i, d.get("unroll", 9)) for i, p in enumerate(sample[:40 if tier != "thorough" else 200])], chunksize=4)
    for st, detail in dv:
        if st == "disagree":
            rep.harness_error("symbolic and concrete domain disagree: " + detail)
    rep.coverage["translator_validation"] = dict(
        reference_vs_gcc=dict(programs=len(gv), agree=sum(1 for x in gv if x[0] == "agree"), skipped=sum(1 for x in gv if x[0] == "skipped")),
        symbolic_vs_concrete_domain=dict(programs=len(dv), agree=sum(1 for x in dv if x[0] == "agree"), skipped=sum(1 for x in dv if x[0] == "skipped")))
    decided = sum(1 for it in rep.items if it["status"] in ("ok", "violation"))
    rep.coverage.update(programs=total, disagreements_checked=sum(1 for it in rep.items if it["status"] == "violation"),
                        explanation=explanation + (f"; plus {per['mixed']} seeded typed random programs that mix all constructs in one body (locals of "
                                                   "all 8 types, casts, every operator class, ?:, branches, bounded loops, loads/stores, bundled "
                                                   "sub-routine calls, plugin macros, postfix operators, statement-expressions)" if "mixed" in per else ""),
                        families=per,
                        rejected_with_exception=sum(1 for r in allrecs if r["verdict"] == "rejected"),
                        bounds=dict(unroll=(item_defaults or {}).get("unroll", 17 if tier == "thorough" else 9),
                                    solver_timeout_ms=(item_defaults or {}).get("timeout_ms", 60000 if tier == "thorough" else 10000),
                                    operand_values="all values of every operand width (bit-vector variables, no sampling)"),
                        functions_encoded=["Compiler.compile_c_stmt path: Lark parse + RZILTransformer.transform + il_init_var/il_write of every node"])
    rep.samples = [dict(c=r["c"], verdict=r["verdict"]) for r in allrecs[::max(1, len(allrecs) // 10)]][:12]
    rep.assumptions = list(assumptions) + [
        "operand/plugin contract of DESIGN.md 1.1", "C-undefined states (shift count out of range, division by zero) assumed away",
        "program dimension enumerated (exhaustive at the stated depth, seeded-random beyond), value dimension decided by z3"]
    return rep.finish({"programs decided": (decided, floor if floor is not None else max(1, int(total * 0.8)))})
