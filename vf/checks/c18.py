"""C18 - pooled parsing equals sequential parsing and isolates failures."""
import functools
import multiprocessing
import os
import random
from .. import chrun, framework, corpus
from ..framework import Report

HARNESS = os.path.join(framework.VERIF, "vf", "ch", "c18_harness.py")
# failing inputs of both error classes the Earley parser raises (UnexpectedCharacters / UnexpectedEOF); "" is valid (empty body)
BROKEN = ["{ RdV = RsV +; }", "{ RdV = ; }", "{ if (RsV { RdV = 1; } }", "{ RdV = RsV $ RtV; }", "{ RdV = (RsV; }", "}{", "",
          "{ RdV = 1;", "{ RdV = (1 + ", "{ RdV = RsV +"]


def near_miss(text, rng):
    """A behaviour that differs from a valid one in WHITESPACE ONLY (usually no longer valid): a blank inserted inside a
    multi-character operator, number or identifier, or a blank removed between two words."""
    import re
    cands = [m.start() + 1 for m in re.finditer(r"<<|>>|&&|\|\||==|!=|<=|>=|\+\+|--|[-+*&|^]=|->", text)]
    cands += [m.start() + 1 for m in re.finditer(r"[A-Za-z_]\w{2,}|\d{2,}", text)]
    joins = [m.start() for m in re.finditer(r"(?<=\w) (?=\w)", text)]
    if joins and (not cands or rng.random() < 0.25):
        i = rng.choice(joins)
        return text[:i] + text[i + 1:]
    if not cands:
        return text + " }"
    i = rng.choice(cands)
    return text[:i] + " " + text[i:]


def _real_pool(rep, tier, rng):
    """Validation of the stub's contract: the REAL Parser.parse with pools of size 1, 2, 16 on corpus subsets with injected
    broken behaviours vs sequential parse_single (concrete runs - the scheduler cannot be encoded)."""
    corpus.quiet_imports()
    import rzilcompiler.Parser as P
    B = corpus.load_behaviors()
    names = sorted(n for n in B if sum(len(b) for b in B[n]) < 160)
    n_items = 0
    for size in (1, 2, 16):
        pick = rng.sample(names, 24 if tier == "quick" else 96)
        beh = {}
        for i, n in enumerate(pick):
            beh[n] = list(B[n])
            if i % 5 == 2:
                beh[f"broken_{i}"] = [rng.choice(BROKEN)]
            if i % 7 == 3:
                beh[f"halfbroken_{i}"] = [B[n][0], rng.choice(BROKEN[:5])]
            if i % 3 == 1:
                # whitespace-only variants of a behaviour that is in the same run (a result must depend on the exact text only)
                beh[f"near_{i}"] = [near_miss(B[n][0], rng)] + list(B[n][1:])
                beh[f"near2_{i}"] = [B[n][0], near_miss(B[n][0], rng)]
            if i % 8 == 0:
                # repeated part texts (A-A, A-B-A) and both orders of two distinct parts: one tree PER PART, in the order given
                other = B[pick[(i + 1) % len(pick)]][0]
                beh[f"dup_{i}"] = [B[n][0], B[n][0]]
                beh[f"aba_{i}"] = [B[n][0], other, B[n][0]]
                beh[f"ab_{i}"] = [B[n][0], other]
                beh[f"ba_{i}"] = [other, B[n][0]]
        # two-part entries whose parts BOTH fail, with every ordered pair of failure kinds (the reported error is the first part's)
        for a_, ba in enumerate(BROKEN):
            for b_, bb in enumerate(BROKEN):
                if a_ != b_ and ((a_ + b_ + size) % 3 == 0 or (a_ < 7) != (b_ < 7)):
                    beh[f"bothbroken_{a_}_{b_}"] = [ba, bb]
        items = list(beh.items())
        rng.shuffle(items)
        beh = dict(items)
        saved = P.Pool
        P.Pool = functools.partial(multiprocessing.Pool, size)
        try:
            import io, contextlib, sys
            res = P.Parser.parse(beh)
        finally:
            P.Pool = saved
        grammar = corpus.grammar_text()
        from lark import Lark
        oracle = Lark(grammar, start="fbody", parser="earley")  # independent of Parser.py: one parser object, each text parsed on its own
        for name, parts in beh.items():
            key = f"pool{size}:{name}"
            n_items += 1
            seq = P.parse_single(P.InsnParsingBundle(grammar, name, parts))[name]
            e = res.get(name)
            if e is None or len(res) != len(beh):
                rep.add(key, "violation", "entries", f"pool size {size}: {len(res)} entries for {len(beh)} names; entry missing: {e is None}")
                continue
            same = (e.name == name and list(e.behaviors) == list(parts) and (e.exception is None) == (seq.exception is None)
                    and (e.exception is None or e.exception.name == seq.exception.name)
                    and [t.pretty() for t in e.asts] == [t.pretty() for t in seq.asts])
            isolated = (e.exception is None and len(e.asts) == len(parts)) or (e.exception is not None and e.asts == [])
            try:
                otrees, oexc = [oracle.parse(p_).pretty() for p_ in parts], None
            except Exception as ex:  # noqa
                otrees, oexc = [], type(ex).__name__
            if (e.exception is None) != (oexc is None) or (oexc is None and [t.pretty() for t in e.asts] != otrees) \
                    or (oexc is not None and e.exception.name != oexc):
                rep.add(key, "violation", "pooled-vs-own-text", f"pool size {size}: the entry does not correspond to ITS OWN text: pooled "
                        f"(exception {getattr(e.exception, 'name', None)}, {len(e.asts)} trees) vs a direct parse of the same parts "
                        f"(exception {oexc}, {len(otrees)} trees)", parts=list(parts))
                continue
            if same and isolated:
                rep.add(key, "ok")
            else:
                rep.add(key, "violation", "pooled-vs-sequential", f"pool size {size}: pooled entry differs from sequential parse_single "
                        f"(exception {getattr(e.exception, 'name', None)} vs {getattr(seq.exception, 'name', None)}, {len(e.asts)} vs {len(seq.asts)} trees)")
    # calls with MANY entries (any batching / chunking of the work list must not lose or duplicate entries): tiny generated behaviours
    from lark import Lark
    oracle = Lark(corpus.grammar_text(), start="fbody", parser="earley")
    for n, size in ((257, 4), (300, 16), (513, 3)) if tier == "quick" else ((257, 4), (300, 16), (383, 2), (513, 3), (640, 16), (769, 5), (1025, 8)):
        beh = {}
        for i in range(n):
            beh[f"many_{i}"] = ["{ RdV = RsV + " + str(i) + "; }"] if i % 41 != 7 else ["{ RdV = RsV + " + str(i) + " }"]
        saved = P.Pool
        P.Pool = functools.partial(multiprocessing.Pool, size)
        try:
            res = P.Parser.parse(beh)
        finally:
            P.Pool = saved
        n_items += 1
        key = f"many:{n}@pool{size}"
        missing = [k for k in beh if k not in res]
        extra = [k for k in res if k not in beh]
        wrong = []
        for k, parts in beh.items():
            e = res.get(k)
            if e is None:
                continue
            broken = parts[0].endswith(" }") and not parts[0].endswith("; }")
            if (e.exception is not None) != broken or (not broken and (len(e.asts) != 1 or e.asts[0] != oracle.parse(parts[0]))) or list(e.behaviors) != parts:
                wrong.append(k)
        if missing or extra or wrong:
            rep.add(key, "violation", "entries", f"one call with {n} behaviours on a pool of {size}: {len(res)} entries returned, missing {missing[:3]} "
                    f"(+{max(0, len(missing) - 3)}), unexpected {extra[:3]}, wrong {wrong[:3]}")
        else:
            rep.add(key, "ok")
    return n_items


def run(tier):
    rep = Report("C18", tier, "other")
    thorough = tier == "thorough"
    rng = random.Random(framework.seed() + 18)
    res = chrun.run_harness(HARNESS, 600 if thorough else 200, thorough=thorough)
    nconf = chrun.report(rep, HARNESS, res, "C18")
    n_items = _real_pool(rep, tier, rng)
    rep.coverage["many_entries"] = "one Parser.parse call with 257 / 300 / 513 (thorough: up to 1025) tiny behaviours on pools of 2..16 workers: every name present once, own tree"
    rep.coverage.update(
        explanation="CrossHair on the real Parser.parse / parse_single under environment stubs (Pool.imap by its documented contract, Lark "
                    "raising an arbitrary exception class for behaviours marked broken, tqdm/Conf/open in memory): for every choice of "
                    "entries (<= 2 quick / <= 3 thorough), parts per entry (1..2), broken parts and exception class the result has exactly "
                    "one entry per name, unbroken entries carry one tree per part in order and no exception, broken entries the error's "
                    "class name and no trees, and equals sequential parse_single.  Pool sizes / interleavings are discharged BY the stub's "
                    "contract, not explored; as validation of that contract the real pool is run with sizes 1, 2, 16 on corpus subsets "
                    "with injected broken behaviours and whitespace-only variants of behaviours of the same run (concrete); every pooled entry "
                    "is also compared with a direct parse of its own parts by an independent Lark object.",
        functions_encoded=["Parser.parse", "parse_single", "ParsedInsn", "ParserException", "InsnParsingBundle"],
        evaluations=len(res) + n_items, distinct_nontrivial=n_items, conditions_confirmed=nconf,
        rule="one CrossHair condition per entry count; one concrete item per (pool size, instruction name)",
        bounds=dict(entries="<= 2 / <= 3", parts="1..2", exception_classes=4, real_pool_sizes=[1, 2, 16]))
    rep.samples = [dict(function=r["name"], verdict=r["verdict"], seconds=r["time"]) for r in res]
    rep.assumptions = ["multiprocessing.Pool.imap delivers f(arg) for each submitted arg, in submission order (documented contract; the "
                       "C/OS-level scheduler cannot be encoded)", "CrossHair/z3 models of Python"]
    return rep.finish({"conditions confirmed": (nconf, 3), "real pool entries": (n_items, 60)})
