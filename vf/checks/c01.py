"""C01 - shipped behaviours are translated faithfully end to end (SMT translation validation)."""
import re
import random
from .. import corpus, framework, corpus_run, tv
from ..framework import Report, load_baseline

VIOL = ("value", "sort", "syntax", "uninit", "noped-bad")
INCONC = ("gap", "unknown", "unwind", "c-syntax")


def _sub_isolated(item):
    name, unroll, timeout_ms = item
    subs, macs, _ = corpus_run.res()
    il = corpus_run.il_subs()
    d = subs[name]
    if name not in il:
        return dict(key=f"sub:{name}", verdict="missing", detail="sub-routine not compiled by the Compiler constructor")
    r = tv.check_pair(d["code"], il[name], il, (subs, macs),
                      tv.Opts(unroll=unroll, timeout_ms=timeout_ms, sub_params=d["params"], sub_ret=d["return_type"]))
    out = r.as_dict()
    out.update(key=f"sub:{name}", c=d["code"])
    if out["verdict"] in VIOL:
        out["il"] = il[name]
    return out


def mutate_il(il):
    """Reachability twin: negate the value of the last register write / store / jump target of the text."""
    m = None
    for m in re.finditer(r"(WRITE_REG\(bundle, [^,]+, |STOREW\([^;]*?, )", il):
        pass
    if m is None:
        return None
    # value expression runs to the matching ')' before ';'
    start = m.end()
    end = il.index(";", start)
    close = il.rindex(")", start, end)
    return il[:start] + "LOGNOT(" + il[start:close] + ")" + il[close:]


def _twin(item):
    name, behs, unroll = item
    subs, macs, noped = corpus_run.res()
    c = corpus_run.compile_insn(name, behs)
    if c["status"] != "ok" or c["insn_name"] in noped:
        return None
    il2 = mutate_il(c["rzil"][0])
    if il2 is None:
        return None
    r = tv.check_pair(behs[0], il2, corpus_run.il_subs(), (subs, macs), tv.Opts(unroll=unroll, timeout_ms=20000))
    return dict(key=f"twin:{name}/0", verdict=r.verdict, detail=r.detail)


def classify(rep, rec, accepted_base):
    v = rec["verdict"]
    key = rec["key"]
    rep.count_query(v)
    rep.note_xsolver(rec)
    extra = {k: rec[k] for k in ("c", "il", "model", "bad", "il_final", "c_final", "contract_dependent", "fmt", "hyb")
             if k in rec}
    if v in ("equiv", "noped-ok"):
        rep.add(key, "ok", "", rec.get("detail", ""))
        rep.solver_time += rec.get("time", 0) or 0
    elif v in VIOL:
        d = rec.get("detail", "")
        if rec.get("contract_dependent"):
            d += " [contract-dependent]"
        rep.add(key, "violation", v, d, **extra)
    elif v == "c-unsupported":
        # the compiler returned code for something the C reference cannot give a meaning to
        rep.add(key, "violation", "accepted-unsupported", rec.get("detail", ""), **extra)
    elif v in ("parse-err", "transform-exc"):
        name = key.split(":", 1)[1]
        if accepted_base is not None and name in accepted_base:
            rep.add(key, "violation", "rejected", f"bundled behaviour that used to compile is rejected: {rec['detail']}")
        else:
            rep.add(key, "ok", "rejected-with-exception", rec.get("detail", "")[:80])
    elif v == "harness-error":
        rep.harness_error(f"{key}: {rec.get('detail')} model={rec.get('model')}")
    else:
        rep.add(key, "inconclusive", v, rec.get("detail", ""))


def run(tier):
    rep = Report("C01", tier, "translation_validation")
    B = corpus.load_behaviors()
    names = sorted(B)
    thorough = tier == "thorough"
    unroll = 17
    timeout = 60000 if thorough else 10000
    accepted_base = load_baseline("accepted_corpus.json")
    accepted_base = set(accepted_base) if accepted_base is not None else None
    # explicit temporary-counter offset (1000 = long-lived instance): the verdict must not depend on worker history
    items = [(n, B[n], "READ_STATEMENTS", 1000, unroll, timeout) for n in names]
    recs = [r for rr in framework.pmap(corpus_run.tv_insn, items, chunksize=4) for r in rr]
    for r in recs:
        classify(rep, r, accepted_base)
    accepted = sorted({r["key"].split(":", 1)[1].split("/")[0] for r in recs if r["verdict"] not in
                       ("parse-err", "transform-exc")})
    # sub-routines in isolation
    subs, _, _ = corpus.resources()
    for r in framework.pmap(_sub_isolated, [(n, unroll, timeout) for n in subs]):
        if r["verdict"] == "missing":
            rep.add(r["key"], "violation", "rejected", r["detail"])
        else:
            classify(rep, r, None)
    extra_runs = 0
    if thorough:
        # temporary-counter offsets (fresh vs long-lived instance) and the second layout, hybrid users only
        hyb_users = sorted({r["key"].split(":", 1)[1].split("/")[0] for r in recs
                            if r["verdict"] in ("equiv",) + VIOL})
        more = []
        for n in hyb_users:
            if re.search(r"\+\+|--|\w+\s*\(|\(\{", "".join(B[n])):
                for hyb in (0, 1, 1000):
                    more.append((n, B[n], "READ_STATEMENTS", hyb, unroll, timeout))
            more.append((n, B[n], "EXEC_CLASSES", 1000, unroll, timeout))
        for rr in framework.pmap(corpus_run.tv_insn, more, chunksize=4):
            for r in rr:
                r = dict(r)
                r["key"] = f"{r['key']} #hyb={r.get('hyb')} @{r.get('fmt')}"  # a variant run is its own input
                extra_runs += 1
                if r["verdict"] in ("equiv", "noped-ok"):
                    rep.count_query(r["verdict"])
                    rep.note_xsolver(r)
                    continue
                classify(rep, r, accepted_base)
    # reachability twins (vacuity guard): a negated write must be found
    rng = random.Random(framework.seed())
    pool = [n for n in accepted if len(B[n]) == 1]
    sample = rng.sample(pool, min(len(pool), 120 if thorough else 40))
    twins = [t for t in framework.pmap(_twin, [(n, B[n], unroll) for n in sample]) if t]
    missed = [t for t in twins if t["verdict"] not in ("value", "sort")]
    for t in missed:
        rep.harness_error(f"reachability twin not refuted: {t}")
    parts_ok = sum(1 for it in rep.items if it["status"] == "ok" and it["key"].startswith("insn:") and "/" in it["key"])
    rep.coverage.update(
        programs=len([r for r in recs if "/" in r["key"]]) + len(subs),
        disagreements_checked=sum(1 for it in rep.items if it["status"] == "violation"),
        explanation="every accepted part of the bundled corpus + 13 sub-routines in isolation; one equivalence query "
                    "(all registers/immediates/pc/memory symbolic) + unwinding/initialisation obligations per part",
        bounds=dict(unroll=unroll, solver_timeout_ms=timeout, operand_widths="architectural (8..64 bit, full width)"),
        functions_encoded=["Compiler.transform_insn", "RZILTransformer.*", "Pures/*", "Effects/*", "Hybrids/*",
                           "SubRoutine.il_init(DEF)", "PreprocessorHexagon.load_insn_behavior"],
        corpus_definitions=len(names), accepted_instructions=len(accepted),
        rejected_with_exception=len(names) - len(accepted),
        extra_runs_offsets_and_layout=extra_runs, twins_run=len(twins), twins_refuted=len(twins) - len(missed),
    )
    rep.samples = [dict(key=r["key"], verdict=r["verdict"], c=r.get("c", "")[:160]) for r in recs[:2000:250]]
    rep.assumptions = [
        "operand/plugin contract of DESIGN.md 1.1 (READ_REG/WRITE_REG banks, ISA2REG identity, memory little-endian)",
        "C states with undefined behaviour (shift count out of range, division by zero, bitops field out of range) are assumed away",
        "float helpers, HEX_REGFIELD, HEX_GET_NPC, HEX_GET_CORRESPONDING_CS are uninterpreted functions shared by both sides",
        f"loops unrolled {unroll} times with an unwinding obligation (must be unsat)",
    ]
    floors = {"accepted parts proved equivalent": (parts_ok, 1200)}
    return rep.finish(floors)
