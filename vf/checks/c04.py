"""C04 - common-type and promotion rules are exactly the C11 table (CrossHair on the real functions)."""
import os
from .. import chrun, framework
from ..framework import Report

HARNESS = os.path.join(framework.VERIF, "vf", "ch", "c04_harness.py")


def run(tier):
    rep = Report("C04", tier, "other")
    T = 60 if tier == "quick" else 300
    res = chrun.run_harness(HARNESS, T)
    n = chrun.report(rep, HARNESS, res, "C04")
    rep.coverage.update(
        explanation="CrossHair (symbolic execution of the real c11_cast / promoted_type / ValueType.__eq__ with z3, every path) on "
                    "harness functions whose PEP-316 postcondition states the property: result equals the C11 6.3.1.8 table with "
                    "rank = width, both results equal, symmetry, determinism, arguments (signed, width, group flags) unchanged and "
                    "not aliased when a result differs, promotion threshold 32, equality = width and sign; no exception allowed",
        bounds=dict(width="1..2048 (symbolic int)", signed="symbolic bool", group_flags="4 combinations", per_condition_timeout_s=T),
        functions_encoded=["ValueType.c11_cast", "ValueType.promoted_type", "ValueType.__eq__", "ValueType.__init__/properties"],
        evaluations=len(res), distinct_nontrivial=len(res), conditions_confirmed=n,
        rule="one CrossHair condition per harness function; 'Confirmed over all paths' = exhaustive over the path tree")
    rep.samples = [dict(function=r["name"], verdict=r["verdict"], seconds=r["time"]) for r in res]
    rep.assumptions = ["CrossHair's model of Python ints/bools and z3", "copy.deepcopy is executed concretely by CrossHair on real objects"]
    return rep.finish({"conditions confirmed": (n, 8)})


def replay(rp):
    ok, what = chrun.replay_call(rp["extra"]["harness"], rp["extra"]["call"])
    print(rp["extra"]["call"], what)
    return 1 if ok else 0
