"""C11 metadata clauses decided symbolically: the REAL predicates that compute needs_hi / needs_pkt and the sub-routine
prologue run on symbolic code strings (BVRE), against the reference 'the identifier token occurs'."""
import itertools
import z3
from .. import corpus, tv
from ..shim.bvre import SymS, cls_pred
from ..shim.symstr import SymStr, Shim2, run_real_with, model_string

N = 14


class _Shim(Shim2):
    def __init__(self, solver, decisions, n):
        Shim2.__init__(self, solver, decisions, n)
        self.cons = []

    def _do(self, pattern, string, flags, search):
        from ..shim.symstr import materialise, to_atoms, SymMatch
        from ..shim.bvre import py_match
        base = materialise(self.solver, string, self.N, f"mat{self.n}")
        atoms, end = to_atoms(pattern, flags)
        ex, pos, spans = py_match(self.solver, atoms, base, f"m{self.n}", search=search, end_anchor=end)
        self.n += 1
        want = self.decisions.pop(0) if self.decisions else False
        self.cons.append((ex, want))
        self.log.append((pattern, want))
        return SymMatch(base, spans) if want else None


def _shaped(s, code):
    """emitted bodies begin with a newline (blank line / comment line) and end with ';'"""
    s.add(*code.wf(), code.L >= 2, code.c[0] == 10)
    for k in range(code.N):
        s.add(z3.Implies(code.L - 1 == k, code.c[k] == ord(";")))
        s.add(z3.Implies(k < code.L, z3.Or(code.c[k] == 10, z3.And(code.c[k] >= 32, code.c[k] < 127))))


def token_occurs(code, tok):
    word = cls_pred("word")
    n = len(tok)
    alts = []
    for i in range(code.N - n + 1):
        here = z3.And(i + n <= code.L, *[code.c[i + k] == ord(tok[k]) for k in range(n)])
        left = z3.BoolVal(True) if i == 0 else z3.Not(word(code.c[i - 1]))
        right = z3.Or(code.L == i + n, z3.Not(word(code.c[i + n]))) if i + n < code.N else z3.BoolVal(True)
        alts.append(z3.And(here, left, right))
    return z3.Or(*alts)


XS = {}  # cvc5 verdicts on the queries z3 answered unsat


def check_instruction_flags():
    """RZILInstruction.__init__: token hi occurs => needs_hi truthy; token pkt occurs => needs_pkt truthy."""
    corpus.quiet_imports()
    from rzilcompiler.Compiler import RZILInstruction
    out = []
    for dec in itertools.product([True, False], repeat=2):
        s = z3.Solver()
        s.set("timeout", 120000)
        code = SymS("c", N)
        _shaped(s, code)
        shim = _Shim(s, list(dec), N)

        def build(sym):
            return RZILInstruction("vf", [sym], [["HEX_IL_INSN_ATTR_NONE"]], [""])
        ins = run_real_with(_Build(RZILInstruction), shim, SymStr([(code, z3.IntVal(0), code.L)]))
        for ex, want in shim.cons:
            s.add(ex if want else z3.Not(ex))
        flags = {"hi": bool(ins.needs_hi[0]), "pkt": bool(ins.needs_pkt[0])}
        for tok in ("hi", "pkt"):
            if flags[tok]:
                continue
            s.push()
            s.add(token_occurs(code, tok))
            r = str(s.check())
            if r == "unsat":  # second solver on the same assertions
                x = tv.cvc5_decide(s.to_smt2(), 30000).split(":")[0]
                XS[x] = XS.get(x, 0) + 1
            cex = model_string(s.model(), [(code, z3.IntVal(0), code.L)], N) if r == "sat" else None
            s.pop()
            out.append((f"shim:RZILInstruction.needs_{tok}:decisions={dec}", r, cex, tok))
    return out


class _Build:
    """callable whose module globals are rzilcompiler.Compiler's (so run_real swaps that module's `re`)."""

    def __init__(self, cls):
        self.cls = cls
        self.__globals__ = cls.__init__.__globals__

    def __call__(self, sym):
        return self.cls("vf", [sym], [["HEX_IL_INSN_ATTR_NONE"]], [""])


def check_subroutine_prologue():
    """SubRoutine.check_for_bundle_usage: token hi / pkt occurs in the body => the returned text declares it."""
    corpus.quiet_imports()
    from rzilcompiler.Transformer.Hybrids.SubRoutine import SubRoutine
    out = []
    for dec in itertools.product([True, False], repeat=2):
        s = z3.Solver()
        s.set("timeout", 120000)
        code = SymS("c", N)
        _shaped(s, code)
        shim = _Shim(s, list(dec), N)
        res = run_real_with(SubRoutine.check_for_bundle_usage, shim, None, SymStr([(code, z3.IntVal(0), code.L)]))
        for ex, want in shim.cons:
            s.add(ex if want else z3.Not(ex))
        # which prologues were prepended is visible in the literal pieces of the result
        lits = "".join(p[0] for p in res.pieces if isinstance(p[0], str))
        declared = {"pkt": "HexPkt *pkt = bundle->pkt;" in lits, "hi": "const HexInsn *hi = bundle->insn;" in lits}
        for tok in ("hi", "pkt"):
            if declared[tok]:
                continue
            s.push()
            s.add(token_occurs(code, tok))
            r = str(s.check())
            if r == "unsat":  # second solver on the same assertions
                x = tv.cvc5_decide(s.to_smt2(), 30000).split(":")[0]
                XS[x] = XS.get(x, 0) + 1
            cex = model_string(s.model(), [(code, z3.IntVal(0), code.L)], N) if r == "sat" else None
            s.pop()
            out.append((f"shim:SubRoutine.prologue_{tok}:decisions={dec}", r, cex, tok))
    return out


def run_all(rep):
    n = _run_all(rep)
    for k, v in sorted(XS.items()):
        rep.count_query("cvc5:" + k, v)
    if XS.get("sat"):
        rep.harness_error(f"metadata shim: z3 answers unsat, cvc5 answers sat on {XS['sat']} of the same assertion sets")
    return n


def _run_all(rep):
    from rzilcompiler.Compiler import RZILInstruction
    from rzilcompiler.Transformer.Hybrids.SubRoutine import SubRoutine
    n = 0
    for key, r, cex, tok in check_instruction_flags():
        n += 1
        rep.count_query(r)
        if r == "unsat":
            rep.add(key, "ok", "unsat")
        elif r == "sat":
            ins = RZILInstruction("vf", [cex], [["HEX_IL_INSN_ATTR_NONE"]], [""])
            flag = bool(ins.needs_hi[0]) if tok == "hi" else bool(ins.needs_pkt[0])
            if not flag:
                rep.add(key.split(":decisions")[0], "violation", "c11:needs-" + tok, f"text {cex!r} mentions {tok} but needs_{tok} is false", example=cex)
            else:
                rep.harness_error(f"metadata counterexample does not replay: {cex!r}")
        else:
            rep.add(key, "inconclusive", "solver", r)
    for key, r, cex, tok in check_subroutine_prologue():
        n += 1
        rep.count_query(r)
        if r == "unsat":
            rep.add(key, "ok", "unsat")
        elif r == "sat":
            body = SubRoutine.check_for_bundle_usage(None, cex)
            decl = ("const HexInsn *hi = bundle->insn;" if tok == "hi" else "HexPkt *pkt = bundle->pkt;")
            if decl not in body:
                rep.add(key.split(":decisions")[0], "violation", "c11:undeclared", f"sub-routine body {cex!r} mentions {tok} but the prologue does not declare it", example=cex)
            else:
                rep.harness_error(f"prologue counterexample does not replay: {cex!r}")
        else:
            rep.add(key, "inconclusive", "solver", r)
    return n
