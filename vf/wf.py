"""Well-formedness of one emitted body (C10 sorts, C11 text facts, C12 ownership).

C10: one SMT problem over *sort variables*: every subterm gets (kind, width); every local variable
and every LET-bound name one unknown sort; each operator contributes its RzIL typing rule for every
subterm of every arm and loop body (no path is 'taken').  z3 decides whether a consistent sort
assignment exists; the unsat core names the violated rules.
C11/C12: ground facts counted by the front end (declared once / before use / ownership counts).
"""
import re
import z3
from .ilparse import parse_body, parse_subroutine, ILSyntaxError
from .ilsem import CLASS_WIDTH, ALIAS64, MACRO_RET, MACRO_ARGW, FLOAT_BIN, FLOAT_CMP

BV, BOOL, FLT, EFF = 0, 1, 2, 3
C_PARAMS = {"hi", "pkt", "bundle"}
C_CONST_RE = re.compile(r"^(HEX_REG_CLASS_\w+|HEX_REG_ALIAS_\w+|RZ_FLOAT_\w+|HEX_RF_\w+|HEX_REG_FIELD_\w+|HEX_\w+_FIELD_\w+|"
                        r"true|false|IL_TRUE|IL_FALSE|[A-Z][A-Z0-9_]*)$")
IDENT_RE = re.compile(r"^[A-Za-z_]\w*$")
OP_RESOLVERS = {"ISA2REG": 3, "EXPLICIT2OP": 3, "ALIAS2OP": 2, "NREG2OP": 2}
SAME_W = {"ADD", "SUB", "MUL", "DIV", "MOD", "LOGAND", "LOGOR", "LOGXOR"}
CMP = {"EQ", "SLT", "SLE", "SGT", "SGE", "ULT", "ULE", "UGT", "UGE"}
EFFECT_HEADS = {"SETL", "WRITE_REG", "STOREW", "SEQN", "SEQ2", "SEQ3", "SEQ4", "BRANCH", "REPEAT", "NOP", "EMPTY",
                "HEX_STORE_SLOT_CANCELLED", "HEX_GET_NPC"}
PURE_HEADS = (SAME_W | CMP | FLOAT_BIN | FLOAT_CMP | set(MACRO_RET) |
              {"NEG", "LOGNOT", "SHIFTL0", "SHIFTR0", "SHIFTRA", "CAST", "SIGNED", "UNSIGNED", "MSB", "NON_ZERO",
               "IS_ZERO", "INV", "AND", "OR", "XOR", "ITE", "SN", "UN", "U32", "VARL", "VARLP", "LET", "DUP",
               "READ_REG", "LOADW", "INC", "DEC", "BV2F", "F2BV", "IS_INF", "HEX_GET_INSN_RMODE", "ISA2IMM"})
FLOAT_RET = {"HEX_INT_TO_D": 64, "HEX_SINT_TO_D": 64, "HEX_INT_TO_F": 32, "HEX_SINT_TO_F": 32}
FLOAT_ARG = {"HEX_D_TO_INT": 64, "HEX_D_TO_SINT": 64, "HEX_F_TO_INT": 32, "HEX_F_TO_SINT": 32}


class Sort:
    __slots__ = ("k", "w")

    def __init__(self, k, w):
        self.k, self.w = k, w


def S(k, w):
    return Sort(z3.IntVal(k), z3.IntVal(w))


class WF:
    def __init__(self, text, optab, sub_sigs=None, is_sub=False):
        """sub_sigs: name -> list of ('pure', width) | ('op',) | ('c',) for callee parameters."""
        self.problems = []  # (clause, message)
        self.optab = optab
        self.sub_sigs = sub_sigs or {}
        self.solver = z3.Solver()
        self.solver.set(unsat_core=True)
        self.rules = {}
        self.nrule = 0
        self.local_sorts = {}
        self.nterms = 0
        self.is_sub = is_sub
        self.params = {}
        try:
            if is_sub:
                self.sub_name, plist, self.decls, self.ret = parse_subroutine(text)
                for pty, pn in plist:
                    self.params[pn] = "pure" if "RzILOpPure" in pty else "op" if "HexOp" in pty else "c"
            else:
                self.decls, self.ret = parse_body(text)
        except ILSyntaxError as e:
            self.decls = None
            self.problems.append(("c11:syntax", str(e)))
        self.raw_text = text

    # ------------------------------------------------------------------ helpers
    def rule(self, cond, msg):
        self.nrule += 1
        name = f"r{self.nrule}"
        self.rules[name] = msg
        self.solver.assert_and_track(cond, name)

    def fresh(self, hint):
        self.nterms += 1
        return Sort(z3.Int(f"k_{hint}_{self.nterms}"), z3.Int(f"w_{hint}_{self.nterms}"))

    def local(self, name):
        if name not in self.local_sorts:
            self.local_sorts[name] = Sort(z3.Int(f"lk_{name}"), z3.Int(f"lw_{name}"))
        return self.local_sorts[name]

    def eq(self, a, b, msg):
        self.rule(z3.And(a.k == b.k, a.w == b.w), msg)

    def is_k(self, s, k, msg):
        self.rule(s.k == k, msg)

    def bvw(self, s, w, msg):
        self.rule(z3.And(s.k == BV, s.w == w), msg)

    # ------------------------------------------------------------------ analysis
    def run(self):
        if self.decls is None:
            return self.problems
        self.text_facts()
        self.ownership()
        self.sorts()
        return self.problems

    def text_facts(self):
        kinds, order = {}, {}
        P = self.problems
        for i, (kind, name, term, ptr) in enumerate(self.decls):
            if not IDENT_RE.match(name):
                P.append(("c11:identifier", f"invalid C identifier {name!r}"))
            if name in kinds or name in self.params or (name in C_PARAMS and not (self.is_sub and name in ("pkt", "hi"))):
                P.append(("c11:redeclared", f"identifier {name} declared twice"))
            self.check_uses(term, i, kinds, order)
            kinds[name] = kind
            order[name] = i
        self.check_uses(self.ret, len(self.decls), kinds, order)
        self.kinds = kinds
        if self.ret[0] != "id" and not (self.ret[0] == "call" and self.ret[1] in ("NOP", "EMPTY")):
            P.append(("c11:return", f"return of {self.ret[:2]}"))

    def check_uses(self, t, i, kinds, order):
        P = self.problems
        k = t[0]
        if k in ("id", "addr"):
            n = t[1]
            if n in kinds or n in self.params:
                return
            if n in C_PARAMS:
                if self.is_sub:
                    P.append(("c11:undeclared", f"sub-routine body mentions {n} without declaring it"))
                return
            if any(n == d[1] for d in self.decls):
                P.append(("c11:use-before-decl", f"{n} used before its declaration"))
                return
            if not C_CONST_RE.match(n):
                P.append(("c11:undeclared", f"identifier {n} is neither declared nor a parameter/plugin constant"))
        elif k == "call":
            head = t[1]
            if not (head in PURE_HEADS or head in EFFECT_HEADS or head in OP_RESOLVERS or
                    (head.startswith("hex_") and head[4:] in self.sub_sigs)):
                P.append(("c11:unknown-macro", f"{head}(...) is not a known RzIL/plugin macro or registered sub-routine"))
            for a in t[2]:
                self.check_uses(a, i, kinds, order)
        elif k == "ccast":
            self.check_uses(t[2], i, kinds, order)
        elif k == "arrow":
            if t[1] not in kinds and t[1] not in C_PARAMS and t[1] not in self.params:
                P.append(("c11:undeclared", f"{t[1]}->{t[2]}"))

    def ownership(self):
        import collections
        raw, dup = collections.Counter(), collections.Counter()

        def walk(t, in_dup):
            k = t[0]
            if k == "id":
                (dup if in_dup else raw)[t[1]] += 1
            elif k == "addr":
                pass  # &op : HexOp values are plain C values
            elif k == "call":
                d = in_dup or t[1] == "DUP"
                for a in t[2]:
                    walk(a, d)
            elif k == "ccast":
                walk(t[2], in_dup)
        for kind, name, term, ptr in self.decls:
            walk(term, False)
        walk(self.ret, False)
        P = self.problems
        for kind, name, term, ptr in self.decls:
            if kind == "pure":
                if raw[name] + dup[name] == 0:
                    P.append(("c12:unused", f"pure {name} initialised but never used (leak)"))
                elif raw[name] != 1:
                    P.append(("c12:pure-uses", f"pure {name}: {raw[name]} un-DUP'ed uses, {dup[name]} DUP'ed"))
            elif kind == "effect":
                if raw[name] + dup[name] != 1:
                    P.append(("c12:effect-uses", f"effect {name} used {raw[name] + dup[name]} times"))
        for pn, pk in self.params.items():
            if pk == "pure" and raw[pn] > 1:
                P.append(("c12:param-uses", f"borrowed pure parameter {pn}: {raw[pn]} un-DUP'ed uses"))
        self.uses = (raw, dup)

    # ------------------------------------------------------------------ sorts
    def op_width(self, t, cenv):
        if t[0] == "addr":
            t = ("id", t[1])
        if t[0] == "id":
            if t[1] in self.params:
                m = re.match(r"^([RPCM])([a-z])(\2?)V$", t[1])
                if m:
                    return (8 if m.group(1) == "P" else 32) * (2 if m.group(3) else 1)
                return None
            d = cenv.get(t[1])
            if d is None or d[0] != "op":
                self.problems.append(("c10:operand", f"{t[1]} is not an operand variable"))
                return None
            return self.op_width(d[1], cenv)
        if t[0] == "call":
            n, a = t[1], t[2]
            if n == "ISA2REG" and len(a) == 3 and a[1][0] == "chr":
                return self.optab.get(a[1][1])
            if n == "EXPLICIT2OP" and len(a) == 3 and a[1][0] == "id":
                return CLASS_WIDTH.get(a[1][1])
            if n == "ALIAS2OP" and len(a) == 2 and a[0][0] == "id":
                return 64 if a[0][1] in ALIAS64 else 32
            if n == "NREG2OP" and len(a) == 2:
                return 32
        self.problems.append(("c10:operand", f"cannot resolve operand {t[:2]}"))
        return None

    def sorts(self):
        cenv = {name: (kind, term) for kind, name, term, ptr in self.decls}
        memo = {}
        for kind, name, term, ptr in self.decls:
            if kind == "pure":
                memo[name] = self.pure(term, cenv, memo, {})
            elif kind == "effect":
                self.effect(term, cenv, memo)
        if self.ret[0] == "call":
            self.effect(self.ret, cenv, memo)
        elif self.ret[0] == "id" and cenv.get(self.ret[1], ("",))[0] != "effect":
            self.problems.append(("c10:return", f"returned variable {self.ret[1]} is not an effect"))
        for name, s in self.local_sorts.items():
            self.rule(z3.And(s.k >= BV, s.k <= FLT, s.w > 0), f"local {name} has a value sort")
        if "jump_flag" in self.local_sorts:
            self.is_k(self.local_sorts["jump_flag"], BOOL, "jump_flag is a bool")
        if "jump_target" in self.local_sorts:
            self.bvw(self.local_sorts["jump_target"], 32, "jump_target is a 32-bit bitvector")
        r = self.solver.check()
        if str(r) == "unsat":
            core = [self.rules[str(c)] for c in self.solver.unsat_core()]
            self.problems.append(("c10:ill-sorted", "no consistent sort assignment; violated rules: " + " | ".join(core[:6])))
        elif str(r) != "sat":
            self.problems.append(("inconclusive", f"sort solver answered {r}"))
        self.nqueries = 1

    def effect(self, t, cenv, memo):
        P = self.problems
        if t[0] == "id":
            d = cenv.get(t[1])
            if d is None or d[0] != "effect":
                P.append(("c10:effect", f"{t[1]} used as an effect"))
            return
        if t[0] != "call":
            P.append(("c10:effect", f"{t} is not an effect"))
            return
        n, a = t[1], t[2]
        if n in ("NOP", "EMPTY"):
            return
        if n.startswith("SEQ"):
            if n == "SEQN":
                if not a or a[0][0] != "num" or a[0][1] != len(a) - 1:
                    P.append(("c10:seqn", f"SEQN count {a[0] if a else None} with {len(a) - 1} arguments"))
                a = a[1:]
            elif int(n[3:]) != len(a):
                P.append(("c10:seqn", f"{n} with {len(a)} arguments"))
            for e in a:
                self.effect(e, cenv, memo)
            return
        if n == "SETL":
            if len(a) == 2 and a[0][0] == "str":
                self.eq(self.local(a[0][1]), self.pure(a[1], cenv, memo, {}),
                        f"SETL: local {a[0][1]} keeps one sort for its whole life")
            else:
                P.append(("c10:arity", "SETL"))
            return
        if n == "WRITE_REG":
            if len(a) != 3:
                P.append(("c10:arity", "WRITE_REG"))
                return
            w = self.op_width(a[1], cenv)
            s = self.pure(a[2], cenv, memo, {})
            if w is not None:
                self.bvw(s, w, f"WRITE_REG {a[1][1] if len(a[1]) > 1 else a[1]}: value is a {w}-bit bitvector")
            else:
                self.is_k(s, BV, "WRITE_REG value is a bitvector")
            return
        if n == "STOREW":
            self.bvw(self.pure(a[0], cenv, memo, {}), 32, "STOREW address is 32 bit")
            s = self.pure(a[1], cenv, memo, {})
            self.rule(z3.And(s.k == BV, s.w % 8 == 0), "STOREW value is a bitvector of whole bytes")
            return
        if n == "BRANCH":
            if len(a) != 3:
                P.append(("c10:arity", "BRANCH"))
                return
            self.is_k(self.pure(a[0], cenv, memo, {}), BOOL, "BRANCH condition is a bool")
            self.effect(a[1], cenv, memo)
            self.effect(a[2], cenv, memo)
            return
        if n == "REPEAT":
            if len(a) != 2:
                P.append(("c10:arity", "REPEAT"))
                return
            self.is_k(self.pure(a[0], cenv, memo, {}), BOOL, "REPEAT condition is a bool")
            self.effect(a[1], cenv, memo)
            return
        if n == "HEX_STORE_SLOT_CANCELLED":
            return
        if n == "HEX_GET_NPC":
            return
        if n.startswith("hex_") and n[4:] in self.sub_sigs:
            sig = self.sub_sigs[n[4:]]
            if len(sig) != len(a):
                P.append(("c10:arity", f"call {n}: {len(a)} arguments for {len(sig)} parameters"))
                return
            for arg, p in zip(a, sig):
                if p[0] == "pure":
                    s = self.pure(arg, cenv, memo, {})
                    self.rule(z3.And(s.k == (FLT if p[2] else BV), s.w == p[1]),
                              f"argument of {n} has the parameter's width {p[1]}")
                elif p[0] == "op":
                    self.op_width(arg, cenv)
                    # the parameter is `const HexOp *`: a struct variable is passed by address, a pointer variable / parameter as it is
                    isptr = {name: ptr for kind, name, term, ptr in self.decls if kind == "op"}
                    if arg[0] == "id" and arg[1] in isptr and not isptr[arg[1]]:
                        P.append(("c10:operand", f"call {n}: HexOp struct {arg[1]} passed where a pointer to HexOp is expected (missing '&')"))
                    elif arg[0] == "addr" and isptr.get(arg[1]):
                        P.append(("c10:operand", f"call {n}: address of the pointer variable {arg[1]} passed where a pointer to HexOp is expected"))
            return
        P.append(("c10:effect", f"{n}(...) is not an effect"))

    def pure(self, t, cenv, memo, lets):
        P = self.problems
        k = t[0]
        if k == "id":
            n = t[1]
            if n in ("IL_TRUE", "IL_FALSE"):
                return S(BOOL, 1)
            if n in memo:
                return memo[n]
            if n in self.params and self.params[n] == "pure":
                if n not in memo:
                    memo[n] = self.fresh("param_" + n)
                return memo[n]
            d = cenv.get(n)
            if d is not None and d[0] == "pure":
                # used before its declaration (already reported by text_facts): give it a free sort
                memo[n] = self.fresh(n)
                return memo[n]
            if d is not None or n in self.params:
                P.append(("c10:pure", f"{n} ({d[0] if d else 'parameter'}) used as a pure value"))
            # an undeclared identifier is a C11 fact (reported by text_facts); its sort stays unconstrained here
            return self.fresh("bad")
        if k != "call":
            P.append(("c10:pure", f"{t} used as a pure value"))
            return self.fresh("bad")
        n, a = t[1], t[2]
        R = lambda x: self.pure(x, cenv, memo, lets)  # noqa
        out = self.fresh(n)

        def arity(k_):
            if len(a) != k_:
                P.append(("c10:arity", f"{n} with {len(a)} arguments"))
                return False
            return True
        if n == "DUP":
            return R(a[0]) if arity(1) else out
        if n in ("SN", "UN"):
            if arity(2) and a[0][0] == "num" and a[0][1] > 0:
                return S(BV, a[0][1])
            P.append(("c10:literal", f"{n} width"))
            return out
        if n == "U32":
            return S(BV, 32)
        if n == "VARL":
            return self.local(a[0][1])
        if n == "VARLP":
            if a[0][1] not in lets:
                P.append(("c10:let-scope", f"VARLP({a[0][1]}) is read outside a LET that binds it"))
                return out
            return lets[a[0][1]]
        if n == "LET":
            if not arity(3):
                return out
            l2 = dict(lets)
            l2[a[0][1]] = R(a[1])
            return self.pure(a[2], cenv, memo, l2)
        if n == "READ_REG":
            if not arity(3):
                return out
            w = self.op_width(a[1], cenv)
            return S(BV, w) if w else out
        if n == "LOADW":
            self.bvw(R(a[1]), 32, "LOADW address is 32 bit")
            return S(BV, a[0][1])
        if n in SAME_W:
            if not arity(2):
                return out
            x, y = R(a[0]), R(a[1])
            self.is_k(x, BV, f"{n}: left operand is a bitvector")
            self.eq(x, y, f"{n}: operands have equal widths")
            return x
        if n in ("NEG", "LOGNOT"):
            x = R(a[0])
            self.is_k(x, BV, f"{n}: operand is a bitvector")
            return x
        if n in ("SHIFTL0", "SHIFTR0", "SHIFTRA"):
            if not arity(2):
                return out
            x, y = R(a[0]), R(a[1])
            self.is_k(x, BV, f"{n}: value is a bitvector")
            self.is_k(y, BV, f"{n}: amount is a bitvector")
            return x
        if n == "CAST":
            if not arity(3) or a[0][0] != "num":
                return out
            self.is_k(R(a[1]), BOOL, "CAST: fill is a bool")
            self.is_k(R(a[2]), BV, "CAST: value is a bitvector")
            return S(BV, a[0][1])
        if n in ("SIGNED", "UNSIGNED"):
            self.is_k(R(a[1]), BV, f"{n}: value is a bitvector")
            return S(BV, a[0][1])
        if n in ("MSB", "NON_ZERO", "IS_ZERO"):
            self.is_k(R(a[0]), BV, f"{n}: operand is a bitvector")
            return S(BOOL, 1)
        if n == "INV":
            self.is_k(R(a[0]), BOOL, "INV: operand is a bool")
            return S(BOOL, 1)
        if n in ("AND", "OR", "XOR"):
            if not arity(2):
                return out
            self.is_k(R(a[0]), BOOL, f"{n}: left operand is a bool")
            self.is_k(R(a[1]), BOOL, f"{n}: right operand is a bool")
            return S(BOOL, 1)
        if n == "ITE":
            if not arity(3):
                return out
            self.is_k(R(a[0]), BOOL, "ITE: condition is a bool")
            x, y = R(a[1]), R(a[2])
            self.eq(x, y, "ITE: both arms have the same sort")
            return x
        if n in CMP:
            if not arity(2):
                return out
            x, y = R(a[0]), R(a[1])
            self.is_k(x, BV, f"{n}: left operand is a bitvector")
            self.eq(x, y, f"{n}: operands have equal widths")
            return S(BOOL, 1)
        if n in ("INC", "DEC"):
            x = R(a[0])
            self.bvw(x, a[1][1] if len(a) > 1 and a[1][0] == "num" else -1, f"{n}: width argument equals operand width")
            return x
        if n == "BV2F":
            fmt = a[0][1] if a[0][0] == "id" else ""
            w = {"RZ_FLOAT_IEEE754_BIN_32": 32, "RZ_FLOAT_IEEE754_BIN_64": 64}.get(fmt, -1)
            self.bvw(R(a[1]), w, f"BV2F: value has the width of {fmt}")
            return S(FLT, w)
        if n == "F2BV":
            x = R(a[0])
            self.is_k(x, FLT, "F2BV: operand is a float")
            return Sort(z3.IntVal(BV), x.w)
        if n in FLOAT_BIN:
            if not arity(3):
                return out
            x, y = R(a[1]), R(a[2])
            self.is_k(x, FLT, f"{n}: operand is a float")
            self.eq(x, y, f"{n}: operands have the same format")
            return x
        if n in FLOAT_CMP:
            x, y = R(a[0]), R(a[1])
            self.is_k(x, FLT, f"{n}: operand is a float")
            self.eq(x, y, f"{n}: operands have the same format")
            return S(BOOL, 1)
        if n == "IS_INF":
            self.is_k(R(a[0]), FLT, "IS_INF: operand is a float")
            return S(BOOL, 1)
        if n in FLOAT_RET:
            self.bvw(R(a[1]), 64, f"{n}: integer argument is 64 bit")
            return S(FLT, FLOAT_RET[n])
        if n in FLOAT_ARG:
            x = R(a[1])
            self.rule(z3.And(x.k == FLT, x.w == FLOAT_ARG[n]), f"{n}: argument is a {FLOAT_ARG[n]}-bit float")
            return S(BV, 64)
        if n in MACRO_ARGW:
            if not arity(len(MACRO_ARGW[n])):
                return out
            for x, w in zip(a, MACRO_ARGW[n]):
                self.bvw(R(x), w, f"{n}: argument is {w} bit")
            return S(BV, MACRO_RET[n])
        if n in MACRO_RET:
            return S(BV, MACRO_RET[n])
        P.append(("c10:pure", f"{n}(...) is not a pure operator"))
        return out


WF_SECONDS = [0.0]   # accumulated analysis time of this process (constraint generation + z3)


def check_body(text, optab, sub_sigs=None, is_sub=False):
    if not is_sub and text.strip() == "return NOP();":
        return []
    import time
    t0 = time.time()
    try:
        return WF(text, optab, sub_sigs, is_sub).run()
    finally:
        WF_SECONDS[0] += time.time() - t0


def sub_signatures(compiler):
    """name -> parameter kinds/widths taken from the registered SubRoutine objects of the real compiler."""
    from rzilcompiler.Transformer.ValueType import VTGroup
    sigs = {}
    for name, sr in compiler.sub_routines.items():
        sig = []
        for p in sr.ops:
            vt = p.value_type
            if vt.group & VTGroup.EXTERNAL:
                sig.append(("op",) if "HexOp" in (vt.external_type or "") else ("c",))
            else:
                sig.append(("pure", vt.bit_width, bool(vt.group & (VTGroup.FLOAT | VTGroup.DOUBLE))))
        sigs[name] = sig
    return sigs
