"""C20 on GENERATED macro sets: the real run_preprocess_steps() (cleanup_macros, patch_macros, pcpp twice, do-while removal)
in a scratch copy, against an independent oracle: GNU cpp run directly on the generated macro files (cpp handles comments and
line continuations itself) with every patch applied as `#undef NAME` + the patch definition, then the token-level do-while(0)
remover.  Executed, not solved: the macro-set dimension is enumerated from templates (seeded)."""
import os
import random
import re
import shutil
import subprocess
import sys
import tempfile
from . import c20_bundled as BD

HEAD = "// SPDX-FileCopyrightText: test\n/*\n * header comment\n */\n"


def macro_sets(rng, n):
    """Yields (macros_inc, macros_h, macros_mmvec_h, patches_h, shortcode_h) texts."""
    out = []
    comment_spots = ["", "/* c */ ", "    /* indented */ ", "// tail"]
    for k in range(n):
        sp = rng.choice(comment_spots[:3])
        inc = HEAD + "#ifndef HEXAGON_MACROS_INC\n#define fINC_GUARD_DUMMY(X) X\n#endif\n" \
            "#define fADD(A, B) ((A) + (B))\n" \
            "#define fSUB(A, B) \\\n    ((A) - (B))\n" \
            f"#define fTWICE(X) \\\n    {sp}fADD(X, X)\n" \
            "#define fEA(IMM) do { EA = RsV + IMM; } while (0)\n"
        h = HEAD + '#include "qemu/osdep.h"\n' \
            "#ifdef QEMU_GENERATE\n#define fLOAD(DST) gen_load(DST)\n#else\n#define fLOAD(DST) DST = mem_load_u8(EA)\n#endif\n" \
            "#ifdef CONFIG_USER_ONLY\n#define fPRIV() user_only()\n#endif\n" \
            "#ifndef CONFIG_USER_ONLY\n#define fSYS(X) sys_only(X)\n#define fSTORE(V) mem_store_u64(EA, V)\n#endif\n" \
            "#define fMASK(N) \\\n    ((1 << \\\n      (N)) - 1)\n" \
            "// a line comment between macros\n" \
            "#define fSAT(A) (((A) > 127) ? 127 : (A)) /* trailing comment */\n" \
            "#define fSTORE(V) mem_store_u8(EA, V)\n" \
            "#define fSTORE(V) mem_store_u16(EA, V)\n" \
            "#define fNEST(A, B) fTWICE(fSUB(A, fMASK(B)))\n" \
            f"#define fSEQ(A) do {{ {sp}RdV = A; \\\n    {rng.choice(comment_spots[:3])}RxV = fTWICE(A); }} while (0)\n"
        mm = HEAD + "#define fVEC(X) (X)\n"
        patches = "// patches\n#define DEF_SHORTCODE(TAG, SHORTCODE) insn(TAG, SHORTCODE)\n" \
            "#define fSTORE(V) mem_store_u32(EA, V)\n" \
            "#define fUSERONLY(X) \\" + ["", " ", " \t "][k % 3] + "\n    (X + 1)\n"  # blanks behind a continuation backslash (cpp, clang, pcpp join)
        if rng.random() < 0.5:
            patches += "#define fADD(A, B) (A + B)\n"
        sc = 'DEF_SHORTCODE(T1_add, { RdV = fADD(RsV, RtV); })\n' \
            'DEF_SHORTCODE(T2_twice, { RdV = fTWICE(RsV); })\n' \
            'DEF_SHORTCODE(T3_load, { fEA(siV); fLOAD(RdV); })\n' \
            'DEF_SHORTCODE(T4_store, { fEA(uiV); fSTORE(fSAT(RtV)); })\n' \
            'DEF_SHORTCODE(T5_nest, { RdV = fNEST(RsV, 3) + fUSERONLY(RtV); })\n' \
            'DEF_SHORTCODE(T6_seq, { fSEQ(fMASK(4)); fSEQ(RsV); })\n' \
            'DEF_SHORTCODE(T7_vec, { RdV = fVEC(fINC_GUARD_DUMMY(RsV)); })\n' \
            'DEF_SHORTCODE(T8_sys, { RdV = fSYS(RsV) + fADD(1, 2); })\n'
        out.append((inc, h, mm, patches, sc))
    return out


def run_repo_pipeline(repo, files, then_patches=None):
    """then_patches: after the first run, ONLY the patch file is replaced (the other inputs keep their time stamps) and the
    pipeline runs again in the same directory: the result must follow the new patches (regeneration is a function of its inputs)."""
    inc, h, mm, patches, sc = files
    d = tempfile.mkdtemp(prefix="vf_c20g_")
    try:
        shutil.copytree(os.path.join(repo, "rzilcompiler"), os.path.join(d, "rzilcompiler"), ignore=shutil.ignore_patterns("__pycache__", "Tests"))
        pp = os.path.join(d, "Resources/Hexagon/Preprocessor")
        os.makedirs(pp)
        for name, text in (("macros.inc", inc), ("macros.h", h), ("macros_mmvec.h", mm), ("patches_macros.h", patches), ("shortcode.h", sc)):
            with open(os.path.join(pp, name), "w") as f:
                f.write(text)
        subprocess.run(["git", "init", "-q", d], check=True, stdout=subprocess.DEVNULL, stderr=subprocess.DEVNULL)
        code = ("import rzilcompiler.Helper as H; H.LOG_LEVEL=-1\n"
                "from rzilcompiler.Preprocessor.Hexagon.PreprocessorHexagon import PreprocessorHexagon\n"
                "from rzilcompiler.Configuration import Conf, InputFile\n"
                "PreprocessorHexagon(Conf.get_path(InputFile.HEXAGON_PP_SHORTCODE_H)).run_preprocess_steps()\n")
        r = subprocess.run([sys.executable, "-c", code], cwd=d, env=dict(os.environ, PYTHONPATH=d), stdout=subprocess.PIPE,
                           stderr=subprocess.STDOUT, timeout=300)
        if r.returncode != 0:
            return None, r.stdout.decode(errors="replace")[-400:]
        if then_patches is not None:
            import time
            time.sleep(1.1)  # a file system with one-second time stamps must see the patch file as newer
            with open(os.path.join(pp, "patches_macros.h"), "w") as f:
                f.write(then_patches)
            r = subprocess.run([sys.executable, "-c", code], cwd=d, env=dict(os.environ, PYTHONPATH=d), stdout=subprocess.PIPE,
                               stderr=subprocess.STDOUT, timeout=300)
            if r.returncode != 0:
                return None, r.stdout.decode(errors="replace")[-400:]
        with open(os.path.join(pp, "shortcode_resolved.h")) as f:
            return f.read(), ""
    finally:
        shutil.rmtree(d, ignore_errors=True)


def oracle(files):
    """Standard C preprocessing (GNU cpp) of the shortcode under the patched macro set."""
    inc, h, mm, patches, sc = files
    strip_inc = lambda t: "\n".join(l for l in t.split("\n") if not l.startswith("#include"))  # noqa
    names = []
    joined = re.sub(r"\\\s*\n", "", patches)
    for l in joined.split("\n"):
        m = re.match(r"#define\s+(\w+)", l)
        if m:
            names.append(m.group(1))
    undef = "\n".join(f"#undef {n}" for n in names)
    text = strip_inc(inc) + "\n" + strip_inc(h) + "\n" + strip_inc(mm) + "\n" + undef + "\n" + patches + "\n" + sc
    d = tempfile.mkdtemp(prefix="vf_c20o_")
    try:
        p = os.path.join(d, "all.h")
        with open(p, "w") as f:
            f.write(text)
        r = subprocess.run(["cpp", "-P", "-undef", "-nostdinc", p], stdout=subprocess.PIPE, stderr=subprocess.PIPE, timeout=60)
        return r.stdout.decode(errors="replace")
    finally:
        shutil.rmtree(d, ignore_errors=True)


def check_case(item):
    repo, files, idx = item
    then = None
    if isinstance(idx, int) and idx % 4 == 3:
        # history case: run with these patches first, then change ONLY the patch file and regenerate in the same directory
        inc, h, mm, patches, sc = files
        then = patches.replace("mem_store_u32(EA, V)", "mem_store_s16(EA, V)") + "#define fSAT(A) (A)\n"
        files = (inc, h, mm, then, sc)
        got, err = run_repo_pipeline(repo, (inc, h, mm, patches, sc), then_patches=then)
    else:
        got, err = run_repo_pipeline(repo, files)
    if got is None:
        return dict(idx=idx, status="pipeline-failed", detail=err)
    res, order = BD.insn_lines(got)
    ind, _ = BD.insn_lines(oracle(files))
    bad = []
    if set(res) != set(ind):
        bad.append(f"names differ: {sorted(set(res) ^ set(ind))}")
    for n in sorted(set(res) & set(ind)):
        a = BD.tokens(res[n][0])
        b = BD.strip_do_while0(BD.tokens(ind[n][0]))
        if a != b:
            bad.append(f"{n}: repo '{' '.join(a)}' vs cpp '{' '.join(b)}'")
    return dict(idx=idx, status="differs" if bad else "ok", detail=" ; ".join(bad)[:600], files=files if bad else None)
