r"""Translation validation: C behaviour text  vs.  IL text emitted by the real compiler.

One SMT query per program:  defined(s) /\ (final_IL(s) != final_C(s)).   unsat => equivalent for all
initial states (within the unroll bound);  sat => model => concrete replay of both texts;  unknown =>
inconclusive.  Also IL-vs-IL (two layouts / two histories) with the same machinery.
"""
import hashlib
import os
import time
import z3
from .dom import Z3Dom, ConcDom, CBV
from .ilsem import Env, State, ILExec, ILSortError, ModelGap, ILSyntaxError, ILUninit
from .cref import CExec, Unsupported, CSyntaxError, optable, ctype_of

TEMP_PREFIXES = ("h_tmp",)


class Result:
    def __init__(self, verdict, detail="", **kw):
        self.verdict = verdict  # equiv | value | sort | syntax | uninit | unwind | c-unsupported | c-syntax | gap | unknown
        self.detail = detail
        self.info = kw

    def __repr__(self):
        return f"<{self.verdict}: {self.detail[:160]}>"

    def as_dict(self):
        d = {"verdict": self.verdict, "detail": self.detail}
        d.update({k: v for k, v in self.info.items() if k in ("bad", "model", "contract_dependent", "time",
                                                               "replayed", "il_final", "c_final", "max_trip", "xsolver")})
        return d


class Opts:
    def __init__(self, unroll=9, timeout_ms=10000, observe_locals=False, sub_params=None, sub_ret=None,
                 observe_temps=False, retry=True):
        self.unroll = unroll
        self.timeout_ms = timeout_ms
        self.observe_locals = observe_locals
        self.sub_params = sub_params  # for a sub-routine body: list of "<type> <name>"
        self.sub_ret = sub_ret  # C return type string
        self.observe_temps = observe_temps
        self.retry = retry


def _z3dom(abstract=False):
    d = Z3Dom()
    d.abstract = abstract
    return d


# ----------------------------------------------------------------------------------- running both sides

def _sub_param_binds(D, env, opts):
    """Bindings for checking a sub-routine body in isolation: pure params are symbolic arguments."""
    import re
    il_binds, c_params, tags = {}, {}, {}
    for pdecl in opts.sub_params or []:
        m = re.match(r"^(.*?)(\w+)$", pdecl.strip())
        pty, pname = m.group(1).strip(), m.group(2)
        ct = ctype_of(pty)
        if ct is not None:
            v = env.sym("arg_" + pname, ct[1])
            il_binds[pname] = ("pureval", v)
            c_params[pname] = [v, ct, False]
        elif "HexOp" in pty:
            from .cref import classify
            info = classify(pname)
            if not info:
                raise ModelGap(f"HexOp parameter {pname}")
            il_binds[pname] = ("opval", info["ident"])
        else:
            il_binds[pname] = ("cval", pname)
            tags[pname] = pname
    return il_binds, c_params, tags


def run_c(D, env, ctext, res, opts):
    subs, macros = res
    st = State(env)
    cx = CExec(env, subs, macros, opts.unroll)
    params = None
    if opts.sub_params is not None:
        _, params, tags = _sub_param_binds(D, env, opts)
        cx.extern_alias = tags
        cx.ret_type = ctype_of(opts.sub_ret) if opts.sub_ret else None
    st, fr, scope = cx.run(ctext, st, params)
    return st, fr, scope, cx


def run_il(D, env, iltext, il_subs, opts, alt_contract=False):
    st = State(env, alt_contract=alt_contract)
    ix = ILExec(env, il_subs, opts.unroll)
    binds = None
    if opts.sub_params is not None:
        binds, _, _ = _sub_param_binds(D, env, opts)
        from .ilparse import parse_subroutine
        _, _, decls, ret = parse_subroutine(iltext)
        st = ix.run_body((decls, ret), st, None, binds)
    else:
        st = ix.run_body(iltext, st)
    return st, ix


def observables(D, env, ist, cst, fr, cscope, opts):
    """[(name, differs-condition)] - registers written+value, memory, slot cancel, jump, (locals)."""
    diffs = []
    for k in sorted(set(ist.regnew) | set(cst.regnew), key=str):
        wi = ist.regw.get(k, D.false)
        wc = cst.regw.get(k, D.false)
        vi = ist.regnew.get(k)
        vc = cst.regnew.get(k)
        if vi is None:
            vi = env.reg_new0(k)
        if vc is None:
            vc = env.reg_new0(k)
        diffs.append((f"reg {Env.ident_name(k)} written", _ne(D, wi, wc)))
        diffs.append((f"reg {Env.ident_name(k)}", D.band(wc, D.ne(vi, vc))))
    diffs.append(("mem", _memne(D, ist.mem, cst.mem)))
    diffs.append(("cancel", _ne(D, ist.cancel, cst.cancel)))
    if "jump_flag" in ist.locals:
        jf = ist.locals["jump_flag"]
        if not D.is_bool(jf):
            raise ILSortError("jump_flag is not a bool")
        jf_i = D.band(ist.linit["jump_flag"], jf)
    else:
        jf_i = D.false
    diffs.append(("jump_flag", _ne(D, jf_i, fr["jumpf"])))
    if "jump_target" in ist.locals:
        jt = ist.locals["jump_target"]
        if not D.is_bv(jt) or D.size(jt) != 32:
            raise ILSortError("jump_target is not a 32-bit bitvector")
        diffs.append(("jump_target", D.band(fr["jumpf"], D.ne(jt, fr["jumpt"]))))
    elif not D.is_false(fr["jumpf"]):
        diffs.append(("jump_target", fr["jumpf"]))
    if opts.sub_ret and ctype_of(opts.sub_ret) is not None:
        rt = ctype_of(opts.sub_ret)
        if fr["ret"] is not None:
            if "ret_val" not in ist.locals:
                diffs.append(("ret_val missing", D.true))
            else:
                rv = ist.locals["ret_val"]
                if not D.is_bv(rv) or D.size(rv) < rt[1]:
                    raise ILSortError("ret_val narrower than the return type")
                # the caller reads SIGNED/UNSIGNED(width, ret_val): only the low `width` bits are the value
                diffs.append(("ret_val", D.ne(D.extract(rt[1] - 1, 0, rv), fr["ret"])))
    if opts.observe_locals:
        for name, cell in cscope.items():
            if cell[0] is None or name not in ist.locals:
                continue
            lv = ist.locals[name]
            if not D.is_bv(lv):
                diffs.append((f"local {name} sort", D.true))
            elif D.size(lv) != cell[1][1]:
                diffs.append((f"local {name} width", D.true))
            else:
                diffs.append((f"local {name}", D.ne(lv, cell[0])))
    return diffs


def _ne(D, a, b):
    if D.symbolic:
        if a.eq(b):
            return D.false
        return z3.Xor(a, b)
    return a != b


def _memne(D, a, b):
    if D.symbolic:
        return D.false if a.eq(b) else (a != b)
    return not (a == b)


# ----------------------------------------------------------------------------------- model -> concrete

class ModelOracle:
    def __init__(self, model):
        self.m = model
        self.funcs = {d.name(): d for d in model.decls() if d.arity() > 0}

    def uf(self, name, args, w):
        sig = "_".join(f"BitVec{a.w}" for a in args)
        fname = f"{name}__{sig}__{w}"
        d = self.funcs.get(fname)
        if d is None:
            return None
        v = self.m.eval(d(*[z3.BitVecVal(a.v, a.w) for a in args]), model_completion=True)
        return CBV(w, v.as_long())


def model_values(model, env):
    vals = {}
    for name, w in env.used.items():
        v = model.eval(z3.BitVec(name, w), model_completion=True)
        vals[name] = v.as_long()
    mem0 = z3.Array("mem0", z3.BitVecSort(32), z3.BitVecSort(8))
    cache = {}

    def memf(a):
        if a not in cache:
            cache[a] = model.eval(z3.Select(mem0, z3.BitVecVal(a, 32)), model_completion=True).as_long()
        return cache[a]
    vals["__mem__"] = memf
    return vals


def concrete_run(ctext, iltext, il_subs, res, opts, optab, vals, oracle=None, alt_contract=False, il_only=False):
    D = ConcDom(oracle)
    env = Env(D, optab, vals)
    ist, ix = run_il(D, env, iltext, il_subs, opts, alt_contract)
    if il_only:
        return D, env, ist, None, None, None, None
    cst, fr, cscope, cx = run_c(D, env, ctext, res, opts)
    return D, env, ist, cst, fr, cscope, cx


def fmt_state(D, env, st, fr=None):
    out = {}
    for k in sorted(st.regnew, key=str):
        if st.regw.get(k) is True:
            out["reg " + Env.ident_name(k)] = repr(st.regnew[k])
    out["mem writes"] = {hex(a): repr(v) for a, v in sorted(st.mem.writes.items())}
    out["cancel"] = st.cancel
    if fr is not None:
        out["jump"] = (fr["jumpf"], repr(fr["jumpt"]))
    else:
        out["jump"] = (st.locals.get("jump_flag", False), repr(st.locals.get("jump_target")))
        out["locals"] = {k: repr(v) for k, v in st.locals.items()}
    return out


# ----------------------------------------------------------------------------------- the query

def _solve(s, timeout_ms):
    s.set("timeout", timeout_ms)
    r = s.check()
    return str(r)


# second solver: a seeded sample of the queries z3 answered `unsat` is re-decided by cvc5 from the SMT-LIB2 dump of the
# very same assertion stack (solver in the trusted base -> diffed).  sat = the two solvers disagree (harness error).
XSOLVER_EVERY = int(os.environ.get("VERIF_XSOLVER_EVERY", "12"))
XSOLVER_TIMEOUT_MS = int(os.environ.get("VERIF_XSOLVER_TIMEOUT_MS", "8000"))


def xsolver_selected(text):
    if XSOLVER_EVERY <= 0:
        return False
    return int(hashlib.sha256(text.encode()).hexdigest()[:8], 16) % XSOLVER_EVERY == 0


def cvc5_decide(smt2, timeout_ms=None):
    """-> 'unsat' | 'sat' | 'unknown' | 'unsupported: ...' (dump uses a z3-only symbol / cvc5 unavailable)."""
    try:
        import cvc5
    except Exception as e:  # noqa
        return "unsupported: no cvc5 module"
    try:
        slv = cvc5.Solver()
        slv.setOption("tlimit-per", str(timeout_ms or XSOLVER_TIMEOUT_MS))
        slv.setLogic("ALL")
        p = cvc5.InputParser(slv)
        p.setStringInput(cvc5.InputLanguage.SMT_LIB_2_6, smt2, "q")
        sm = p.getSymbolManager()
        res = "unknown"
        while True:
            cmd = p.nextCommand()
            if cmd.isNull():
                break
            o = str(cmd.invoke(slv, sm)).strip()
            if o in ("sat", "unsat", "unknown"):
                res = o
            elif o.startswith("(error"):
                return "unsupported: " + o[:120]
        return res
    except Exception as e:  # noqa
        return "unsupported: " + str(e)[:120]


def check_pair(ctext, iltext, il_subs, res, opts=None, optab=None):
    """C text vs IL text.  il_subs: name -> DEF text of compiled sub-routines; res: (sub_routines.json, macros.json)."""
    opts = opts or Opts()
    t0 = time.time()
    if optab is None:
        optab = optable(ctext, [d["code"] for d in res[0].values()])
    last = None
    for attempt, abstract in enumerate((False, True)):
        D = _z3dom(abstract)
        env = Env(D, optab)
        try:
            cst, fr, cscope, cx = run_c(D, env, ctext, res, opts)
        except (ILSortError, z3.Z3Exception) as e:
            return Result("gap", "C: operand table conflict: " + str(e)[:200])
        except Unsupported as u:
            return Result("c-unsupported", str(u))
        except CSyntaxError as e:
            return Result("c-syntax", str(e))
        except ModelGap as g:
            return Result("gap", "C: " + str(g))
        try:
            ist, ix = run_il(D, env, iltext, il_subs, opts)
        except ILSortError as e:
            return Result("sort", str(e))
        except ILSyntaxError as e:
            return Result("syntax", str(e))
        except ILUninit as g:
            # a definite ordering defect if the effect does write this local somewhere (or it is a compiler temporary)
            if g.name.startswith(TEMP_PREFIXES) or g.name == "ret_val" or f'SETL("{g.name}"' in iltext:
                return Result("uninit", f"local {g.name} is read before anything has written it")
            return Result("gap", "IL: " + str(g))
        except ModelGap as g:
            return Result("gap", "IL: " + str(g))
        try:
            diffs = observables(D, env, ist, cst, fr, cscope, opts)
        except ILSortError as e:
            return Result("sort", str(e))
        s = z3.Solver()
        for d in cx.defined + ix.defined:
            s.add(d)
        # vacuity guard: the definedness assumptions must be satisfiable
        if cx.defined or ix.defined:
            if _solve(s, opts.timeout_ms) == "unsat":
                return Result("gap", "definedness assumptions unsatisfiable (vacuous)")
        # C-side unwinding obligations first: if the C loop itself can exceed the bound the program is outside the bound
        il_unwind = []
        for side, (cond, what) in [("C", o) for o in cst.obligations if o not in ist.obligations] + [("IL", o) for o in ist.obligations]:
            if D.is_false(cond):
                continue
            is_unwind = "unwinding" in what
            if is_unwind and what.startswith("IL"):
                il_unwind.append((cond, what))
                continue
            s.push()
            s.add(cond)
            r = _solve(s, opts.timeout_ms)
            if r == "sat" and not is_unwind:
                m = s.model()
                s.pop()
                return Result("uninit", what, model=_model_dict(m, env))
            s.pop()
            if r != "unsat":
                return Result("unwind" if is_unwind else "unknown", what + f" ({r})")
        # the C loops provably stay inside the bound: an IL loop that can exceed it runs longer than the C loop (divergence)
        for cond, what in il_unwind:
            s.push()
            s.add(cond)
            r = _solve(s, opts.timeout_ms)
            if r == "sat":
                m = s.model()
                s.pop()
                return Result("value", "['loop trip count']: the emitted REPEAT is still running after the unwinding bound although the C "
                              "loop has provably ended", bad=["loop trip count"], model=_model_dict(m, env), replayed=False)
            s.pop()
            if r != "unsat":
                return Result("unwind", what + f" ({r})")
        s.add(z3.Or(*[d for _, d in diffs]) if diffs else z3.BoolVal(False))
        r = _solve(s, opts.timeout_ms)
        dt = time.time() - t0
        trip = max(ix.stats["max_trip"], cx.stats["max_trip"])
        if r == "unsat":
            xs = None
            if xsolver_selected(ctext + "\0" + iltext):
                xs = cvc5_decide(s.to_smt2())
                if xs == "sat":
                    return Result("harness-error", f"z3 answers unsat but cvc5 answers sat on the same assertions "
                                                   f"(abstract={abstract}): solver disagreement")
            return Result("equiv", f"{dt:.2f}s", time=dt, abstract=abstract, max_trip=trip,
                          nodes=ix.stats["nodes"], ndefined=len(cx.defined), xsolver=xs)
        if r == "sat" and not abstract:
            m = s.model()
            bad = [n for n, d in diffs if z3.is_true(m.eval(d, model_completion=True))]
            return _replay(ctext, iltext, il_subs, res, opts, optab, m, env, bad, dt)
        last = Result("unknown", f"solver answered {r} after {dt:.1f}s" + (" (abstracted)" if abstract else ""))
        if not opts.retry:
            break
    return last


def _model_dict(m, env):
    out = {}
    for name, w in sorted(env.used.items()):
        v = m.eval(z3.BitVec(name, w), model_completion=True)
        out[name] = hex(v.as_long())
    return out


def _replay(ctext, iltext, il_subs, res, opts, optab, m, env, bad, dt):
    """Turn the solver's model into a concrete initial state and run both texts concretely."""
    vals = model_values(m, env)
    oracle = ModelOracle(m)
    md = _model_dict(m, env)
    try:
        D, cenv, ist, cst, fr, cscope, cx = concrete_run(ctext, iltext, il_subs, res, opts, optab, vals, oracle)
        if not all(cx.defined):
            return Result("harness-error", "model violates a definedness assumption in concrete replay", model=md)
        diffs = observables(D, cenv, ist, cst, fr, cscope, opts)
        cbad = [n for n, d in diffs if d]
    except Exception as e:  # noqa
        return Result("harness-error", f"concrete replay raised {type(e).__name__}: {e}", model=md)
    if not cbad:
        return Result("harness-error", f"model does not replay concretely (symbolic diff {bad})", model=md)
    # contract dependence: does the verdict survive the alternative READ_REG(false) reading?
    dep = False
    try:
        D2, cenv2, ist2, cst2, fr2, cscope2, cx2 = concrete_run(ctext, iltext, il_subs, res, opts, optab, vals,
                                                                oracle, alt_contract=True)
        dep = not [n for n, d in observables(D2, cenv2, ist2, cst2, fr2, cscope2, opts) if d]
    except Exception:  # noqa
        pass
    mem_reads = {}
    return Result("value", f"{cbad}", bad=cbad, model=md, replayed=True, contract_dependent=dep, time=dt,
                  il_final=_jsonable(fmt_state(D, cenv, ist)), c_final=_jsonable(fmt_state(D, cenv, cst, fr)))


def _jsonable(x):
    if isinstance(x, dict):
        return {str(k): _jsonable(v) for k, v in x.items()}
    if isinstance(x, (list, tuple)):
        return [_jsonable(v) for v in x]
    if isinstance(x, (str, int, bool)) or x is None:
        return x
    return repr(x)


# ----------------------------------------------------------------------------------- IL vs IL

def check_il_pair(il_a, il_b, il_subs_a, il_subs_b, optab, opts=None, rename_temps=True):
    """Two emitted texts for the same behaviour (two layouts, or two histories): same final state?
    Compiler temporaries (h_tmpN) may be numbered differently and are not observables; every other local is."""
    opts = opts or Opts()
    t0 = time.time()
    for abstract in (False, True):
        D = _z3dom(abstract)
        env = Env(D, optab)
        try:
            sa, xa = run_il(D, env, il_a, il_subs_a, opts)
            sb, xb = run_il(D, env, il_b, il_subs_b, opts)
        except ILSortError as e:
            return Result("sort", str(e))
        except ILSyntaxError as e:
            return Result("syntax", str(e))
        except ModelGap as g:
            return Result("gap", str(g))
        d = [("mem", _memne(D, sa.mem, sb.mem)), ("cancel", _ne(D, sa.cancel, sb.cancel))]
        for k in sorted(set(sa.regnew) | set(sb.regnew), key=str):
            d.append((f"reg {Env.ident_name(k)} written", _ne(D, sa.regw.get(k, D.false), sb.regw.get(k, D.false))))
            va, vb = sa.regnew.get(k), sb.regnew.get(k)
            va = env.reg_new0(k) if va is None else va
            vb = env.reg_new0(k) if vb is None else vb
            d.append((f"reg {Env.ident_name(k)}", D.ne(va, vb)))
        for k in sorted(set(sa.locals) | set(sb.locals)):
            if k.startswith(TEMP_PREFIXES):
                continue
            if (k in sa.locals) != (k in sb.locals):
                d.append((f"local {k} only in one", D.true))
                continue
            x, y = sa.locals[k], sb.locals[k]
            if not D.same_sort(x, y):
                d.append((f"local {k} sort", D.true))
            elif D.is_bool(x):
                d.append((f"local {k}", _ne(D, D.band(sa.linit[k], x), D.band(sb.linit[k], y))))
            else:
                d.append((f"local {k}", D.band(sa.linit[k], D.ne(x, y))))
                d.append((f"local {k} init", _ne(D, sa.linit[k], sb.linit[k])))
        s = z3.Solver()
        for c in xa.defined + xb.defined:
            s.add(c)
        s.add(z3.Or(*[c for _, c in d]))
        r = _solve(s, opts.timeout_ms)
        dt = time.time() - t0
        if r == "unsat":
            xs = None
            if xsolver_selected(il_a + "\0" + il_b):
                xs = cvc5_decide(s.to_smt2())
                if xs == "sat":
                    return Result("harness-error", f"z3 answers unsat but cvc5 answers sat on the same assertions "
                                                   f"(abstract={abstract}): solver disagreement")
            return Result("equiv", f"{dt:.2f}s", time=dt, xsolver=xs)
        if r == "sat" and not abstract:
            m = s.model()
            bad = [n for n, c in d if z3.is_true(m.eval(c, model_completion=True))]
            return Result("value", f"{bad}", bad=bad, model=_model_dict(m, env), time=dt)
    return Result("unknown", f"{r} after {dt:.1f}s")
