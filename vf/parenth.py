"""Full parenthesisation of a behaviour text by an independent precedence-climbing parser (C17, structural oracle).

paren(T) copies the statement structure of T token by token (braces, if/else, for, declarations stay exactly where they
are) and wraps EVERY composite sub-expression in parentheses according to C's precedence and associativity (written from
the C11 expression grammar, not from grammar.lark).  Because `"(" expr ")"` is an inlined alternative of the compiler's
grammar, a parser that groups T as C prescribes yields the SAME tree for T and paren(T); any difference is a structural
mis-grouping - also one that no value can observe (`a & b & c` grouped from the right).
"""
from .cref import lex, ctype_of, CSyntaxError, Unsupported

ASSIGN_OPS = ("=", "+=", "-=", "*=", "/=", "%=", "<<=", ">>=", "&=", "^=", "|=")
LEVELS = [["||"], ["&&"], ["|"], ["^"], ["&"], ["==", "!="], ["<", ">", "<=", ">="], ["<<", ">>"], ["+", "-"], ["*", "/", "%"]]
TYPE_WORDS = ("const", "int", "unsigned", "signed")


class P:
    def __init__(self, text):
        self.t = lex(text)
        self.i = 0
        self.composites = 0

    def pk(self, o=0):
        return self.t[min(self.i + o, len(self.t) - 1)]

    def eat(self, v=None):
        tk = self.pk()
        if v is not None and tk[1] != v:
            raise CSyntaxError(f"expected {v!r} got {tk[1]!r}")
        self.i += 1
        return tk[1]

    def is_type_tok(self, o=0):
        k, v = self.pk(o)
        return v in TYPE_WORDS or (k == "id" and ctype_of(v) is not None)

    def type_text(self):
        words = []
        while self.is_type_tok():
            words.append(self.eat())
        if not words:
            raise CSyntaxError("type expected")
        if self.pk()[1] == "*":
            raise Unsupported("pointer type")
        return " ".join(words)

    def wrap(self, s):
        self.composites += 1
        return "(" + s + ")"

    # statements ------------------------------------------------------------------------------
    def program(self):
        out = self.stmt()
        if self.pk()[0] != "eof":
            raise CSyntaxError("trailing tokens")
        return out

    def block_items(self):
        items = []
        while self.pk()[1] != "}":
            if self.pk()[0] == "eof":
                raise CSyntaxError("unterminated block")
            items.append(self.stmt())
        return items

    def stmt(self):
        k, v = self.pk()
        if v == "{":
            self.eat()
            items = self.block_items()
            self.eat("}")
            return "{ " + " ".join(items) + (" " if items else "") + "}"
        if v == ";":
            self.eat()
            return ";"
        if v == "if":
            self.eat()
            self.eat("(")
            c = self.expr()
            self.eat(")")
            s = f"if ({c}) " + self.stmt()
            if self.pk()[1] == "else":
                self.eat()
                s += " else " + self.stmt()
            return s
        if v == "for":
            self.eat()
            self.eat("(")
            parts = []
            for end in (";", ";", ")"):
                parts.append("" if self.pk()[1] == end else self.expr())
                self.eat(end)
            return f"for ({parts[0]}; {parts[1]}; {parts[2]}) " + self.stmt()
        if v == "while":
            self.eat()
            self.eat("(")
            c = self.expr()
            self.eat(")")
            return f"while ({c}) " + self.stmt()
        if v == "do":
            self.eat()
            b = self.stmt()
            self.eat("while")
            self.eat("(")
            c = self.expr()
            self.eat(")")
            self.eat(";")
            return f"do {b} while ({c});"
        if v == "return":
            self.eat()
            if self.pk()[1] == ";":
                self.eat()
                return "return;"
            e = self.expr()
            self.eat(";")
            return f"return {e};"
        if v in ("break", "continue", "cancel_slot"):
            self.eat()
            if self.pk()[1] == ";":
                self.eat()
                return v + ";"
            return v
        if v in ("goto", "switch", "case", "default", "typedef", "struct", "union", "enum", "static", "extern"):
            raise Unsupported(v)
        if self.is_type_tok():
            ty = self.type_text()
            decls = []
            while True:
                name = self.eat()
                if self.pk()[1] == "=":
                    self.eat()
                    decls.append(f"{name} = {self.assign()}")
                else:
                    decls.append(name)
                if self.pk()[1] == ",":
                    self.eat()
                    continue
                break
            self.eat(";")
            return f"{ty} {', '.join(decls)};"
        e = self.expr()
        self.eat(";")
        return e + ";"

    # expressions -----------------------------------------------------------------------------
    def expr(self):
        e = self.assign()
        while self.pk()[1] == ",":
            self.eat()
            e = self.wrap(f"{e}, {self.assign()}")
        return e

    def assign(self):
        lhs = self.cond()
        if self.pk()[1] in ASSIGN_OPS:
            op = self.eat()
            rhs = self.assign()
            return self.wrap(f"{lhs} {op} {rhs}")
        return lhs

    def cond(self):
        c = self.binary(0)
        if self.pk()[1] == "?":
            self.eat()
            a = self.expr()
            self.eat(":")
            b = self.cond()
            return self.wrap(f"{c} ? {a} : {b}")
        return c

    def binary(self, lvl):
        if lvl == len(LEVELS):
            return self.castexpr()
        left = self.binary(lvl + 1)
        while self.pk()[0] == "op" and self.pk()[1] in LEVELS[lvl]:
            op = self.eat()
            right = self.binary(lvl + 1)
            left = self.wrap(f"{left} {op} {right}")
        return left

    def castexpr(self):
        if self.pk()[1] == "(" and self.is_type_tok(1):
            self.eat("(")
            ty = self.type_text()
            self.eat(")")
            return self.wrap(f"({ty}){self.castexpr()}")
        return self.unary()

    def unary(self):
        k, v = self.pk()
        if k == "op" and v in ("-", "+", "~", "!"):
            self.eat()
            return self.wrap(f"{v}{self.castexpr()}")
        if k == "op" and v in ("++", "--"):
            self.eat()
            return self.wrap(f"{v}{self.unary()}")
        if k == "op" and v in ("*", "&"):
            raise Unsupported("pointer operator")
        if v == "sizeof":
            self.eat()
            if self.pk()[1] == "(" and self.is_type_tok(1):
                self.eat("(")
                ty = self.type_text()
                self.eat(")")
                return f"sizeof({ty})"
            return self.wrap(f"sizeof {self.unary()}")
        return self.postfix()

    def postfix(self):
        p = self.primary()
        while True:
            k, v = self.pk()
            if k == "op" and v in ("++", "--"):
                self.eat()
                p = self.wrap(f"{p}{v}")
            elif v in ("[", ".", "->"):
                raise Unsupported("postfix " + v)
            else:
                return p

    def primary(self):
        k, v = self.pk()
        if v == "(":
            self.eat()
            if self.pk()[1] == "{":
                self.eat()
                items = self.block_items()
                self.eat("}")
                self.eat(")")
                return "({ " + " ".join(items) + " })"
            n0 = self.composites
            e = self.expr()
            self.eat(")")
            # keep the source's own parentheses around a leaf; a composite is wrapped already
            return e if self.composites > n0 and e.startswith("(") else "(" + e + ")"
        if k in ("num", "str"):
            return self.eat()
        if k == "id":
            name = self.eat()
            if self.pk()[1] == "(":
                self.eat()
                args = []
                if self.pk()[1] != ")":
                    args.append(self.assign())
                    while self.pk()[1] == ",":
                        self.eat()
                        args.append(self.assign())
                self.eat(")")
                return f"{name}({', '.join(args)})"
            return name
        raise CSyntaxError(f"unexpected token {v!r}")


def paren(text):
    """-> (fully parenthesised text, number of composite sub-expressions wrapped)"""
    p = P(text)
    out = p.program()
    return out, p.composites
