"""Value domains for the two semantics (IL and C reference).

Z3Dom  : symbolic - values are z3 bit-vector / Bool terms.  This is the deciding domain.
ConcDom: concrete - values are CBV(width, int) / Python bool.  Used only to *replay* a solver model
         against the text the real compiler emitted, and for translator validation against gcc.
Both executors (vf.ilsem.ILExec, vf.cref.CExec) are written once against this interface.
"""
import zlib
import z3


class CBV:
    """Concrete bit-vector."""
    __slots__ = ("w", "v")

    def __init__(self, w, v):
        self.w = w
        self.v = v & ((1 << w) - 1)

    def s(self):
        return self.v - (1 << self.w) if self.v >> (self.w - 1) else self.v

    def __eq__(self, o):
        return isinstance(o, CBV) and o.w == self.w and o.v == self.v

    def __hash__(self):
        return hash((self.w, self.v))

    def __repr__(self):
        return f"{self.v:#x}:{self.w}"


class CMem:
    """Concrete byte memory: base function + overlay of writes."""

    def __init__(self, base, writes=None):
        self.base = base
        self.writes = writes or {}

    def get(self, a):
        return self.writes.get(a, None) if a in self.writes else self.base(a)

    def put(self, a, v):
        w = dict(self.writes)
        w[a] = v
        return CMem(self.base, w)

    def __eq__(self, o):
        keys = set(self.writes) | set(o.writes)
        return all(self.get(k) == o.get(k) for k in keys)

    def diff(self, o):
        keys = set(self.writes) | set(o.writes)
        return {k: (self.get(k), o.get(k)) for k in keys if self.get(k) != o.get(k)}


class Z3Dom:
    symbolic = True
    abstract = False  # True: non-linear operators become shared uninterpreted functions (sound for unsat)

    def _nl(self, name, x, y):
        if z3.is_bv_value(x) or z3.is_bv_value(y):
            return None
        if not self.abstract:
            return None
        f = z3.Function(f"abs_{name}_{x.size()}", x.sort(), y.sort(), x.sort())
        return f(x, y)

    def bv(self, w, v):
        return z3.BitVecVal(v % (1 << w), w)

    true = z3.BoolVal(True)
    false = z3.BoolVal(False)

    def boolv(self, b):
        return z3.BoolVal(bool(b))

    def is_bv(self, x):
        return z3.is_bv(x)

    def is_bool(self, x):
        return z3.is_bool(x)

    def size(self, x):
        return x.size()

    def sort_name(self, x):
        return str(x.sort())

    def same_sort(self, x, y):
        return x.sort() == y.sort()

    # arithmetic
    def add(self, x, y): return x + y
    def sub(self, x, y): return x - y
    def mul(self, x, y):
        r = self._nl("mul", x, y)
        return x * y if r is None else r

    def udiv(self, x, y):
        r = self._nl("udiv", x, y)
        return z3.UDiv(x, y) if r is None else r

    def urem(self, x, y):
        r = self._nl("urem", x, y)
        return z3.URem(x, y) if r is None else r

    def sdiv(self, x, y):
        r = self._nl("sdiv", x, y)
        return x / y if r is None else r

    def srem(self, x, y):
        r = self._nl("srem", x, y)
        return z3.SRem(x, y) if r is None else r
    def and_(self, x, y): return x & y
    def or_(self, x, y): return x | y
    def xor(self, x, y): return x ^ y
    def not_(self, x): return ~x
    def neg(self, x): return -x
    def shl(self, x, y): return x << y
    def lshr(self, x, y): return z3.LShR(x, y)
    def ashr(self, x, y): return x >> y
    # comparisons
    def eq(self, x, y): return x == y
    def ne(self, x, y): return x != y
    def ult(self, x, y): return z3.ULT(x, y)
    def ule(self, x, y): return z3.ULE(x, y)
    def ugt(self, x, y): return z3.UGT(x, y)
    def uge(self, x, y): return z3.UGE(x, y)
    def slt(self, x, y): return x < y
    def sle(self, x, y): return x <= y
    def sgt(self, x, y): return x > y
    def sge(self, x, y): return x >= y
    def msb(self, x): return x < 0
    def nonzero(self, x): return x != 0
    # structure
    def extract(self, hi, lo, x): return z3.Extract(hi, lo, x)
    def zext(self, n, x): return z3.ZeroExt(n, x) if n else x
    def sext(self, n, x): return z3.SignExt(n, x) if n else x
    def concat(self, *xs): return z3.Concat(*xs) if len(xs) > 1 else xs[0]

    def ite(self, c, x, y):
        if z3.is_true(c):
            return x
        if z3.is_false(c):
            return y
        if x.eq(y):
            return x
        return z3.If(c, x, y)

    # booleans
    def band(self, *cs):
        cs = [c for c in cs if not z3.is_true(c)]
        if any(z3.is_false(c) for c in cs):
            return self.false
        if not cs:
            return self.true
        return z3.And(*cs) if len(cs) > 1 else cs[0]

    def bor(self, *cs):
        cs = [c for c in cs if not z3.is_false(c)]
        if any(z3.is_true(c) for c in cs):
            return self.true
        if not cs:
            return self.false
        return z3.Or(*cs) if len(cs) > 1 else cs[0]

    def bnot(self, c):
        if z3.is_true(c):
            return self.false
        if z3.is_false(c):
            return self.true
        return z3.Not(c)

    def implies(self, a, b): return z3.Implies(a, b)
    def is_true(self, c): return z3.is_true(c)
    def is_false(self, c): return z3.is_false(c)
    def simplify(self, c): return z3.simplify(c)
    def same(self, x, y): return x.eq(y)

    # memory
    def select(self, m, a): return z3.Select(m, a)
    def store(self, m, a, v): return z3.Store(m, a, v)
    def mem_ite(self, c, a, b): return self.ite(c, a, b)

    def uf(self, name, args, w):
        sig = "_".join(str(a.sort()).replace("(", "").replace(")", "").replace(" ", "") for a in args)
        f = z3.Function(f"{name}__{sig}__{w}", *[a.sort() for a in args], z3.BitVecSort(w))
        return f(*args)


class ConcDom:
    """Concrete domain.  `oracle` supplies values of free symbols, memory base and UF results (from a model)."""
    symbolic = False
    true = True
    false = False

    def __init__(self, oracle=None):
        self.oracle = oracle

    def bv(self, w, v): return CBV(w, v)
    def boolv(self, b): return bool(b)
    def is_bv(self, x): return isinstance(x, CBV)
    def is_bool(self, x): return isinstance(x, bool)
    def size(self, x): return x.w
    def sort_name(self, x): return f"BitVec({x.w})" if isinstance(x, CBV) else "Bool"
    def same_sort(self, x, y):
        return (isinstance(x, bool) and isinstance(y, bool)) or (
            isinstance(x, CBV) and isinstance(y, CBV) and x.w == y.w)

    def add(self, x, y): return CBV(x.w, x.v + y.v)
    def sub(self, x, y): return CBV(x.w, x.v - y.v)
    def mul(self, x, y): return CBV(x.w, x.v * y.v)
    def udiv(self, x, y): return CBV(x.w, (1 << x.w) - 1 if y.v == 0 else x.v // y.v)
    def urem(self, x, y): return CBV(x.w, x.v if y.v == 0 else x.v % y.v)

    def sdiv(self, x, y):
        a, b = x.s(), y.s()
        if b == 0:
            return CBV(x.w, 1 if a < 0 else -1)
        q = abs(a) // abs(b)
        return CBV(x.w, q if (a < 0) == (b < 0) else -q)

    def srem(self, x, y):
        a, b = x.s(), y.s()
        if b == 0:
            return x
        r = abs(a) % abs(b)
        return CBV(x.w, -r if a < 0 else r)

    def and_(self, x, y): return CBV(x.w, x.v & y.v)
    def or_(self, x, y): return CBV(x.w, x.v | y.v)
    def xor(self, x, y): return CBV(x.w, x.v ^ y.v)
    def not_(self, x): return CBV(x.w, ~x.v)
    def neg(self, x): return CBV(x.w, -x.v)
    def shl(self, x, y): return CBV(x.w, 0 if y.v >= x.w else x.v << y.v)
    def lshr(self, x, y): return CBV(x.w, 0 if y.v >= x.w else x.v >> y.v)
    def ashr(self, x, y): return CBV(x.w, (x.s() >> min(y.v, x.w)))
    def eq(self, x, y): return x == y
    def ne(self, x, y): return not (x == y)
    def ult(self, x, y): return x.v < y.v
    def ule(self, x, y): return x.v <= y.v
    def ugt(self, x, y): return x.v > y.v
    def uge(self, x, y): return x.v >= y.v
    def slt(self, x, y): return x.s() < y.s()
    def sle(self, x, y): return x.s() <= y.s()
    def sgt(self, x, y): return x.s() > y.s()
    def sge(self, x, y): return x.s() >= y.s()
    def msb(self, x): return bool(x.v >> (x.w - 1))
    def nonzero(self, x): return x.v != 0
    def extract(self, hi, lo, x): return CBV(hi - lo + 1, x.v >> lo)
    def zext(self, n, x): return CBV(x.w + n, x.v)
    def sext(self, n, x): return CBV(x.w + n, x.s())

    def concat(self, *xs):
        w, v = 0, 0
        for x in xs:
            v = (v << x.w) | x.v
            w += x.w
        return CBV(w, v)

    def ite(self, c, x, y): return x if c else y
    def band(self, *cs): return all(cs)
    def bor(self, *cs): return any(cs)
    def bnot(self, c): return not c
    def implies(self, a, b): return (not a) or b
    def is_true(self, c): return c is True
    def is_false(self, c): return c is False
    def simplify(self, c): return c
    def same(self, x, y): return x == y
    def select(self, m, a): return m.get(a.v)
    def store(self, m, a, v): return m.put(a.v, v)
    def mem_ite(self, c, a, b): return a if c else b

    def uf(self, name, args, w):
        if self.oracle is not None:
            r = self.oracle.uf(name, args, w)
            if r is not None:
                return r
        h = zlib.crc32(repr((name, [(a.w, a.v) if isinstance(a, CBV) else a for a in args])).encode())
        return CBV(w, h * 0x9E3779B97F4A7C15)


def tag16(s):
    """Opaque 16-bit tag for non-arithmetic arguments (operand identities, enum constants)."""
    return zlib.crc32(s.encode()) % 65521
