"""SHIM: run the REAL regex helper functions of /repo on symbolic strings: the module global `re` of the function under test
is swapped for a stand-in that receives the real pattern/flags and emits the BVRE encoding."""
import re as real_re, sys, types, z3, time
try:
    import re._parser as sre_parse, re._constants as sre_c
except ImportError:
    import sre_parse, sre_constants as sre_c
from .bvre import SymS, py_match, char_at, concat_eq, cls_pred

CATS = {sre_c.CATEGORY_WORD: "word", sre_c.CATEGORY_SPACE: "space", sre_c.CATEGORY_DIGIT: "digit",
        sre_c.CATEGORY_NOT_WORD: "not_word", sre_c.CATEGORY_NOT_SPACE: "not_space", sre_c.CATEGORY_NOT_DIGIT: "not_digit"}


def to_atoms(pattern, flags=0):
    """regex -> (atoms, end_anchor) for the subset: literals, \\w \\s . classes with * +, capture groups, $"""
    p = sre_parse.parse(pattern, flags)
    atoms = []; end = False
    def cls_of(item):
        op, arg = item
        if op == sre_c.ANY: return "dot"
        if op == sre_c.NOT_LITERAL: return ("set", True, (("lit", arg),))
        if op == sre_c.CATEGORY: return ("set", False, (("cat", CATS[arg]),))
        if op == sre_c.IN:
            if len(arg) == 1 and arg[0][0] == sre_c.CATEGORY and arg[0][1] in (sre_c.CATEGORY_WORD, sre_c.CATEGORY_SPACE):
                return {sre_c.CATEGORY_WORD: "word", sre_c.CATEGORY_SPACE: "ws"}[arg[0][1]]
            neg = False
            items = []
            for o, a in arg:
                if o == sre_c.NEGATE: neg = True
                elif o == sre_c.LITERAL: items.append(("lit", a))
                elif o == sre_c.RANGE: items.append(("range", a[0], a[1]))
                elif o == sre_c.CATEGORY: items.append(("cat", CATS[a]))
                else: raise NotImplementedError((o, a))
            return ("set", neg, tuple(items))
        raise NotImplementedError(item)
    def walk(seq):
        nonlocal end
        lit = ""
        def flush():
            nonlocal lit
            if lit: atoms.append(("lit", lit)); lit = ""
        for op, arg in seq:
            if op == sre_c.LITERAL:
                lit += chr(arg); continue
            flush()
            if op == sre_c.MAX_REPEAT:
                lo, hi, sub = arg
                assert hi == sre_c.MAXREPEAT and lo in (0, 1) and len(sub) == 1
                atoms.append(("star" if lo == 0 else "plus", cls_of(sub[0])))
            elif op == sre_c.SUBPATTERN:
                g = arg[0]
                atoms.append(("open", g)); walk(arg[3]); atoms.append(("close", g))
            elif op == sre_c.AT and arg == sre_c.AT_END:
                end = True
            elif op in (sre_c.IN, sre_c.ANY, sre_c.NOT_LITERAL, sre_c.CATEGORY):
                atoms.append(("one", cls_of((op, arg))))
            else:
                raise NotImplementedError((op, arg))
        flush()
    walk(p)
    return atoms, end

class SymStr:
    """concatenation of pieces (base, start, end); base is SymS or python str"""
    def __init__(self, pieces): self.pieces = pieces
    @staticmethod
    def lift(x):
        if isinstance(x, SymStr): return x
        return SymStr([(x, z3.IntVal(0), z3.IntVal(len(x)))])
    def __add__(self, o): return SymStr(self.pieces + SymStr.lift(o).pieces)
    def __radd__(self, o): return SymStr(SymStr.lift(o).pieces + self.pieces)

class SymMatch:
    def __init__(self, s, spans): self.s, self.spans = s, spans
    def group(self, i):
        a, b = self.spans[i]
        return SymStr([(self.s, a, b)])

class Shim:
    """stands in for module `re` inside the function under test"""
    ASCII = real_re.ASCII
    def __init__(self, solver, decisions):
        self.solver, self.decisions, self.n = solver, list(decisions), 0
        self.log = []
    def _do(self, pattern, string, flags, search):
        assert isinstance(string, SymStr) and len(string.pieces) == 1 and isinstance(string.pieces[0][0], SymS)
        base = string.pieces[0][0]
        atoms, end = to_atoms(pattern, flags)
        ex, pos, spans = py_match(self.solver, atoms, base, f"m{self.n}", search=search, end_anchor=end)
        self.n += 1
        want = self.decisions.pop(0) if self.decisions else True
        self.solver.add(ex if want else z3.Not(ex))
        self.log.append((pattern, want))
        return SymMatch(base, spans) if want else None
    def search(self, pattern, string, flags=0): return self._do(pattern, string, flags, True)
    def match(self, pattern, string, flags=0): return self._do(pattern, string, flags, False)

def run_real(fn, shim, *args):
    g = fn.__globals__
    saved = g["re"]
    g["re"] = shim
    try:
        return fn(*args)
    finally:
        g["re"] = saved



def materialise(solver, s, N, name):
    """A multi-piece symbolic string as one fresh N-byte buffer (cells equal to the concatenation's characters)."""
    if len(s.pieces) == 1 and isinstance(s.pieces[0][0], SymS) and z3.is_int_value(s.pieces[0][1]) and s.pieces[0][1].as_long() == 0:
        base = s.pieces[0][0]
        if s.pieces[0][2].eq(base.L):
            return base
    buf = SymS(name, N)
    _, total = char_at(s.pieces, 0, N)
    solver.add(buf.L == total, total <= N)
    for k in range(N):
        ch, _ = char_at(s.pieces, k, N)
        solver.add(z3.Implies(k < total, buf.c[k] == ch))
    return buf


class Shim2(Shim):
    """Shim whose search/match accept multi-piece strings (materialised into a fresh buffer of the same bound)."""

    def __init__(self, solver, decisions, N):
        Shim.__init__(self, solver, decisions)
        self.N = N

    def _do(self, pattern, string, flags, search):
        if not isinstance(string, SymStr):
            raise NotImplementedError("concrete string reached the shim")
        base = materialise(self.solver, string, self.N, f"mat{self.n}")
        return Shim._do(self, pattern, SymStr([(base, z3.IntVal(0), base.L)]), flags, search)


def model_string(m, pieces, N):
    """Concrete value of a (possibly multi-piece) symbolic string in a model."""
    _, total = char_at(pieces, 0, N)
    L = m.eval(total, model_completion=True).as_long()
    out = []
    for k in range(min(L, N)):
        ch, _ = char_at(pieces, k, N)
        out.append(chr(m.eval(ch, model_completion=True).as_long()))
    return "".join(out)


def concrete_agrees(pattern, flags, text, search, N=None):
    """Encoder validation: the encoding on a CONCRETE buffer must pick exactly CPython's match (existence and group spans)."""
    N = N or len(text) + 1
    s = z3.Solver()
    buf = SymS("v", N)
    s.add(buf.L == len(text))
    for i, ch in enumerate(text):
        s.add(buf.c[i] == ord(ch))
    atoms, end = to_atoms(pattern, flags)
    ex, pos, spans = py_match(s, atoms, buf, "v", search=search, end_anchor=end)
    if str(s.check()) != "sat":
        return False, "encoding unsatisfiable on a concrete string"
    m = s.model()
    got = z3.is_true(m.eval(ex, model_completion=True))
    ref = (real_re.search if search else real_re.match)(pattern, text, flags)
    if got != (ref is not None):
        return False, f"existence: encoding {got} vs re {ref is not None}"
    if ref is not None:
        for g, (a, b) in spans.items():
            ga, gb = m.eval(a, model_completion=True).as_long(), m.eval(b, model_completion=True).as_long()
            if (ga, gb) != ref.span(g):
                return False, f"group {g}: encoding {(ga, gb)} vs re {ref.span(g)}"
    return True, ""


CURRENT_SHIM = None


def _contains(self, lit):
    """`lit in symstr` inside the function under test: a symbolic bool, resolved by the shim's decision list."""
    shim = CURRENT_SHIM
    if shim is None or not isinstance(lit, str):
        raise NotImplementedError("substring test outside a shim run")
    base = materialise(shim.solver, self, shim.N, f"in{shim.n}")
    shim.n += 1
    N = base.N
    occ = z3.Or(*[z3.And(i + len(lit) <= base.L, *[base.c[i + k] == ord(lit[k]) for k in range(len(lit))])
                  for i in range(N - len(lit) + 1)]) if len(lit) <= N else z3.BoolVal(False)
    want = shim.decisions.pop(0) if shim.decisions else False
    shim.cons.append((occ, want)) if hasattr(shim, "cons") else shim.solver.add(occ if want else z3.Not(occ))
    shim.log.append((f"{lit!r} in", want))
    return want


SymStr.__contains__ = _contains


def run_real_with(fn, shim, *args):
    """run_real + makes the shim visible to SymStr.__contains__."""
    global CURRENT_SHIM
    CURRENT_SHIM = shim
    try:
        return run_real(fn, shim, *args)
    finally:
        CURRENT_SHIM = None
