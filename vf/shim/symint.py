"""SymInt: run the REAL constant-folding functions of the transformer on SYMBOLIC literal values.

A SymInt is an `int` subclass backed by a 136-bit bit-vector term (exact for the arithmetic the folder does on 64-bit
literals: products need 128 bits); comparisons and truth tests return forking symbolic bools whose outcome is taken from a
decision list, so the real code's `if res:` / `'True' if res else 'False'` run as written once per outcome.
True division (the folder's `/`) yields a SymFloat marker: converting it back to an int is reported, not modelled.
"""
import z3

W = 136


class Ctx:
    def __init__(self, decisions):
        self.dec = list(decisions)
        self.taken = []
        self.pc = []
        self.open = False
        self.float_fold = False


CTX = None


def set_ctx(c):
    global CTX
    CTX = c


class SymBool:
    def __init__(self, e):
        self.e = e
        self.v = None

    def __bool__(self):
        if self.v is None:
            if CTX.dec:
                self.v = CTX.dec.pop(0)
            else:
                self.v = True
                CTX.open = True
            CTX.taken.append(self.v)
            CTX.pc.append(self.e if self.v else z3.Not(self.e))
        return self.v


class SymFloat:
    """Result of Python true division on literals: any use as a number means the folder went through a float."""

    def _bad(self, *a):
        CTX.float_fold = True
        raise FloatFold("literal division folded through a Python float")
    __int__ = __index__ = __floor__ = __trunc__ = __round__ = __add__ = __sub__ = __mul__ = __lt__ = __gt__ = __format__ = _bad

    def __str__(self):
        return "<symfloat>"
    __repr__ = __str__


class FloatFold(Exception):
    pass


class SymInt(int):
    def __new__(cls, e):
        o = int.__new__(cls, 0)
        o.e = e
        return o

    @staticmethod
    def lift(x):
        return x.e if isinstance(x, SymInt) else z3.BitVecVal(int(x), W)

    def __add__(s, o): return SymInt(s.e + SymInt.lift(o))
    __radd__ = __add__
    def __sub__(s, o): return SymInt(s.e - SymInt.lift(o))
    def __rsub__(s, o): return SymInt(SymInt.lift(o) - s.e)
    def __mul__(s, o): return SymInt(s.e * SymInt.lift(o))
    __rmul__ = __mul__
    def __neg__(s): return SymInt(-s.e)
    def __pos__(s): return s
    def __invert__(s): return SymInt(~s.e)
    def __truediv__(s, o): return SymFloat()
    def __rtruediv__(s, o): return SymFloat()
    def __floordiv__(s, o):
        d = SymInt.lift(o)
        if bool(SymBool(d == 0)):
            raise ZeroDivisionError("integer division or modulo by zero")
        # literal values are non-negative: floor division == C's truncating division
        return SymInt(z3.UDiv(s.e, d))

    def __mod__(s, o):
        d = SymInt.lift(o)
        if bool(SymBool(d == 0)):
            raise ZeroDivisionError("integer division or modulo by zero")
        return SymInt(z3.URem(s.e, d))
    def __lt__(s, o): return SymBool(s.e < SymInt.lift(o))
    def __gt__(s, o): return SymBool(s.e > SymInt.lift(o))
    def __le__(s, o): return SymBool(s.e <= SymInt.lift(o))
    def __ge__(s, o): return SymBool(s.e >= SymInt.lift(o))
    def __eq__(s, o): return SymBool(s.e == SymInt.lift(o))
    def __ne__(s, o): return SymBool(s.e != SymInt.lift(o))
    def __bool__(s): return bool(SymBool(s.e != 0))
    __hash__ = int.__hash__
    def __format__(s, f): return "SYM"
    def __str__(s): return "SYM"
    __repr__ = __str__
