"""BVRE: bounded Boolean/bit-vector encoding of CPython `re` semantics over an N-byte symbolic buffer.

Supported subset (what the functions under test use): literals, the classes . \\w \\s with greedy * and +, capture groups,
^ (match) and $ (end or before a final newline).  M[t][i][j]: item t matches buffer[i:j];  R[t][i]: items t.. can still match
from i.  CPython's backtracking choice is pinned down exactly: leftmost start for search, and for every greedy item the
LONGEST length after which the rest can still match (exact for concatenations without back-references).
"""
import z3, time, re, itertools

class SymS:
    """bounded symbolic string: N byte cells + length"""
    def __init__(self, name, N):
        self.N = N
        self.c = [z3.BitVec(f"{name}_{i}", 8) for i in range(N)]
        self.L = z3.Int(f"{name}_len")
    def wf(self):
        return [self.L >= 0, self.L <= self.N]

def _cat(name):
    word = lambda ch: z3.Or(z3.And(ch >= 48, ch <= 57), z3.And(ch >= 65, ch <= 90), z3.And(ch >= 97, ch <= 122), ch == 95)  # noqa
    space = lambda ch: z3.Or(ch == 32, ch == 9, ch == 10, ch == 13, ch == 11, ch == 12)  # noqa
    digit = lambda ch: z3.And(ch >= 48, ch <= 57)  # noqa
    return {"word": word, "space": space, "digit": digit, "not_word": lambda ch: z3.Not(word(ch)),
            "not_space": lambda ch: z3.Not(space(ch)), "not_digit": lambda ch: z3.Not(digit(ch))}[name]


def cls_pred(kind):
    """kind: 'dot' | 'ws' | 'word' | ('set', negate, items) with items ('lit', c) | ('range', lo, hi) | ('cat', name).
    Bytes are ASCII (the buffers are constrained to < 128), so re.ASCII and Unicode classes coincide."""
    if kind == "dot":
        return lambda ch: ch != 10
    if kind == "ws":
        return _cat("space")
    if kind == "word":
        return _cat("word")
    if isinstance(kind, tuple) and kind[0] == "set":
        _, neg, items = kind

        def pred(ch):
            alts = []
            for it in items:
                if it[0] == "lit":
                    alts.append(ch == it[1])
                elif it[0] == "range":
                    alts.append(z3.And(ch >= it[1], ch <= it[2]))
                else:
                    alts.append(_cat(it[1])(ch))
            r = z3.Or(*alts) if alts else z3.BoolVal(False)
            return z3.Not(r) if neg else r
        return pred
    raise ValueError(kind)


def compile_atoms(atoms, s, end_anchor=False):
    """atoms: list of ('lit', str) | ('star', kind) | ('plus', kind) | ('open', g) | ('close', g)
    returns tables M[t][i][j], R[t][i]"""
    N = s.N
    real = [(k, a) for k, a in enumerate(atoms) if a[0] in ("lit", "star", "plus", "one")]
    T = len(real)
    F = z3.BoolVal(False)
    inlen = [z3.IntVal(j) <= s.L for j in range(N + 1)]
    runs = {}

    def run_table(kind):
        # run[i][j]: every byte of buffer[i:j] is in the class (built incrementally: O(N^2) nodes per class)
        if kind not in runs:
            p = cls_pred(kind)
            ok = [p(s.c[k]) for k in range(N)]
            tab = [[F] * (N + 1) for _ in range(N + 1)]
            for i in range(N + 1):
                tab[i][i] = z3.BoolVal(True)
                for j in range(i + 1, N + 1):
                    tab[i][j] = z3.And(tab[i][j - 1], ok[j - 1]) if j - 1 > i else ok[i]
            runs[kind] = tab
        return runs[kind]
    M = []
    for _, a in real:
        tab = [[F] * (N + 1) for _ in range(N + 1)]
        if a[0] == "lit":
            n = len(a[1])
            for i in range(N + 1 - n):
                j = i + n
                tab[i][j] = z3.And(*[s.c[i + k] == ord(a[1][k]) for k in range(n)], inlen[j]) if n else z3.BoolVal(True)
        elif a[0] == "one":
            p = cls_pred(a[1])
            for i in range(N):
                tab[i][i + 1] = z3.And(p(s.c[i]), inlen[i + 1])
        else:
            rt = run_table(a[1])
            for i in range(N + 1):
                for j in range(i, N + 1):
                    if a[0] == "plus" and j == i:
                        continue
                    tab[i][j] = z3.And(rt[i][j], inlen[j]) if j > i else inlen[j]
        M.append(tab)
    R = [None] * (T + 1)
    if end_anchor:
        R[T] = [z3.Or(s.L == i, z3.And(s.L == i + 1, s.c[i] == 10) if i < N else F) for i in range(N + 1)]
    else:
        R[T] = list(inlen)
    return real, M, R


def py_match(solver, atoms, s, tag, search=True, end_anchor=False):
    """adds constraints defining the match Python would produce; returns (exists, positions P[t] as Int exprs, group spans)"""
    N = s.N
    real, M, R = compile_atoms(atoms, s, end_anchor)
    T = len(real)
    F = z3.BoolVal(False)
    # named completion tables R[t][i] (items t.. can still match from i), defined bottom-up
    Rn = [None] * (T + 1)
    for t in range(T, -1, -1):
        row = []
        for i in range(N + 1):
            b = z3.Bool(f"R{tag}_{t}_{i}")
            if t == T:
                solver.add(b == R[T][i])
            else:
                opts = [z3.And(M[t][i][j], Rn[t + 1][j]) for j in range(i, N + 1) if not z3.is_false(M[t][i][j])]
                solver.add(b == (z3.Or(*opts) if opts else F))
            row.append(b)
        Rn[t] = row
    exists = z3.Or(*Rn[0]) if search else Rn[0][0]
    pos = [z3.Int(f"p{tag}_{t}") for t in range(T + 1)]
    cons = []
    if search:
        notbefore = z3.BoolVal(True)
        opts = []
        for i in range(N + 1):
            opts.append(z3.And(pos[0] == i, Rn[0][i], notbefore))
            notbefore = z3.And(notbefore, z3.Not(Rn[0][i]))
        cons.append(z3.Or(*opts))
    else:
        cons.append(pos[0] == 0)
    for t in range(T):
        opts = []
        for i in range(N + 1):
            # longer[j]: some k > j with item t matching [i:k] and the rest matching from k  (suffix-or: O(N) per i)
            longer = [F] * (N + 2)
            for j in range(N - 1, i - 1, -1):
                k = j + 1
                term = z3.And(M[t][i][k], Rn[t + 1][k]) if not z3.is_false(M[t][i][k]) else F
                longer[j] = z3.Or(longer[j + 1], term) if not z3.is_false(term) else longer[j + 1]
            for j in range(i, N + 1):
                if z3.is_false(M[t][i][j]):
                    continue
                opts.append(z3.And(pos[t] == i, pos[t + 1] == j, M[t][i][j], Rn[t + 1][j], z3.Not(longer[j])))
        cons.append(z3.Or(*opts) if opts else F)
    solver.add(z3.Implies(exists, z3.And(*cons)))
    # groups
    spans = {}
    for k, a in enumerate(atoms):
        if a[0] in ("open", "close"):
            n = sum(1 for kk, _ in real if kk < k)
            spans.setdefault(a[1], [None, None])[0 if a[0] == "open" else 1] = pos[n]
    return exists, pos, spans


def char_at(pieces, k, N):
    """pieces: list of (base SymS or python str, start Int expr, end Int expr); char k of the concatenation (k python int)"""
    off = z3.IntVal(0)
    res = z3.BitVecVal(0, 8)
    conds = []
    for base, st, en in pieces:
        ln = en - st
        idx = st + (k - off)
        if isinstance(base, str):
            sel = z3.BitVecVal(0, 8)
            for m in range(len(base)):
                sel = z3.If(idx == m, z3.BitVecVal(ord(base[m]), 8), sel)
        else:
            sel = z3.BitVecVal(0, 8)
            for m in range(base.N):
                sel = z3.If(idx == m, base.c[m], sel)
        conds.append((z3.And(k >= off, k < off + ln), sel))
        off = off + ln
    for c, v in reversed(conds):
        res = z3.If(c, v, res)
    return res, off

def concat_eq(p1, p2, N):
    _, l1 = char_at(p1, 0, N)
    _, l2 = char_at(p2, 0, N)
    eqs = [l1 == l2]
    for k in range(N):
        a, _ = char_at(p1, k, N); b, _ = char_at(p2, k, N)
        eqs.append(z3.Implies(k < l1, a == b))
    return z3.And(*eqs)

