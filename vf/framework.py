"""Shared scaffolding: worker pool, known findings, replay files, evidence, exit codes.

Exit codes: 0 = property held on everything explored (known findings printed as KNOWN-FINDING),
1 = at least one replayed violation that known_findings.json does not list, 2 = harness error.
"""
import hashlib
import json
import multiprocessing as mp
import os
import sys
import time
import traceback

VERIF = "/verif"
REPO = os.environ.get("VERIF_REPO", "/repo")
FINDINGS_FILE = os.path.join(VERIF, "known_findings.json")


def seed():
    try:
        return int(os.environ.get("VERIF_SEED", "0"))
    except ValueError:
        return 0


def nprocs():
    return int(os.environ.get("VERIF_PROCS", str(min(16, os.cpu_count() or 4))))


def _init_worker():
    os.chdir(REPO)
    sys.setrecursionlimit(20000)
    devnull = open(os.devnull, "w")
    sys.stderr = devnull  # tqdm / colorama chatter of the compiler
    try:
        import contextlib, io
        with contextlib.redirect_stdout(io.StringIO()):
            import rzilcompiler.Helper as H
        H.LOG_LEVEL = -1
    except Exception:
        pass


def _guard(fn_item):
    fn, item = fn_item
    try:
        return ("ok", fn(item))
    except Exception:
        return ("err", (repr(item)[:300], traceback.format_exc()))


def pmap(fn, items, chunksize=1, procs=None, fresh=False):
    """Ordered parallel map in forked workers with cwd=/repo.  fresh=True: one process per task."""
    items = list(items)
    if not items:
        return []
    ctx = mp.get_context("fork")
    out = []
    with ctx.Pool(procs or nprocs(), initializer=_init_worker, maxtasksperchild=1 if fresh else None) as pool:
        for status, val in pool.imap(_guard, [(fn, it) for it in items], chunksize=1 if fresh else chunksize):
            if status == "err":
                raise HarnessError(f"worker failed on {val[0]}:\n{val[1]}")
            out.append(val)
    return out


class HarnessError(Exception):
    pass


# ---------------------------------------------------------------------------------------- findings

def il_sha(extra):
    """Hash of the STRUCTURE of the emitted code a violation was observed on: comments and whitespace stripped, compiler
    temporaries renamed, and every declared C identifier alpha-renamed by order of declaration - so cosmetic changes of
    the emitter (comment text, variable naming, blank lines) keep the hash, a different effect tree changes it."""
    import re
    il = "\n".join(str(extra[k]) for k in ("il", "il_a", "il_b", "got") if extra.get(k))
    if not il:
        return None
    code = "\n".join(l.split("//", 1)[0] for l in il.split("\n"))
    names = {}

    def ren(m):
        names.setdefault(m.group(0), f"h_tmp#{len(names)}")
        return names[m.group(0)]
    code = re.sub(r"\b\w*h_tmp\d+", ren, code)
    decl = {}
    for m in re.finditer(r"(?:RzILOpPure|RzILOpBool|RzILOpEffect|HexOp)\s*\*?\s*([A-Za-z_]\w*)\s*=", code):
        decl.setdefault(m.group(1), f"v{len(decl)}")
    if decl:
        code = re.sub(r"\b(" + "|".join(re.escape(k) for k in sorted(decl, key=len, reverse=True)) + r")\b", lambda m: decl[m.group(1)], code)
    return hashlib.sha256("".join(code.split()).encode()).hexdigest()[:16]


class Findings:
    """known_findings.json: {"findings": [{property, id, what, clause, keys: [...]}], "fixed": ["fixed: ..."]}
    A finding suppresses exactly the (property, key, clause) triples it lists - nothing else."""

    def __init__(self, prop):
        self.prop = prop
        self.entries = []
        if os.path.exists(FINDINGS_FILE):
            with open(FINDINGS_FILE) as f:
                data = json.load(f)
            self.entries = [e for e in data.get("findings", []) if e["property"] == prop]
        self.index = {}
        for e in self.entries:
            for k in e["keys"]:
                self.index[(k, e["clause"])] = e
        self.hits = {}
        self.changed = []
        self._il = None
        self.queries = 0

    def match(self, key, clause, extra=None):
        """A finding matches the exact (key, clause).  For value findings it must in addition be the SAME defect: the code emitted
        now for that input has to be semantically equal (IL == IL solver query, robust against re-formulations such as
        SEQN(2,..) -> SEQ2 or renamed variables) to the code the finding was recorded on - otherwise the same input fails in a
        different way and is reported as a new violation."""
        e = self.index.get((key, clause))
        if e is None:
            return None
        if clause == "value" and extra and extra.get("il") and extra.get("c") and not self.same_defect(key, extra):
            self.changed.append((key, e["id"]))
            return None
        self.hits.setdefault(e["id"], []).append(key)
        return e

    def recorded_il(self, key):
        if self._il is None:
            p = os.path.join(VERIF, "baselines", "finding_il", f"{self.prop}.json")
            try:
                with open(p) as f:
                    self._il = json.load(f)
            except FileNotFoundError:
                self._il = {}
        return self._il.get(key)

    def same_defect(self, key, extra):
        rec = self.recorded_il(key)
        if rec is None:
            return True
        cur = extra["il"]
        if il_sha({"il": rec}) == il_sha({"il": cur}):
            return True
        try:
            from . import tv, corpus_run
            from .cref import optable
            subs, macs, _ = corpus_run.res()
            il_subs = corpus_run.il_subs(extra.get("fmt") or "READ_STATEMENTS")
            opts = tv.Opts(unroll=9, timeout_ms=10000)
            if key.startswith("sub:"):
                d = subs.get(key[4:])
                if d is None:
                    return True
                opts = tv.Opts(unroll=17, timeout_ms=10000, sub_params=d["params"], sub_ret=d["return_type"])
            r = tv.check_il_pair(rec, cur, il_subs, il_subs, optable(extra["c"], [d["code"] for d in subs.values()]), opts)
            self.queries += 1
        except Exception:  # noqa - cannot decide: stay quiet (a known finding is never escalated on doubt)
            return True
        return r.verdict not in ("value", "sort", "syntax")


# ---------------------------------------------------------------------------------------- report

class Report:
    def __init__(self, prop, tier, level, technique=""):
        self.prop = prop
        self.tier = tier
        self.level = level
        self.t0 = time.time()
        self.items = []  # dict(key, status, clause, detail, extra)
        self.coverage = {}
        self.assumptions = []
        self.samples = []
        self.solver_time = 0.0
        self.queries = {}
        self.notes = []
        self.harness_errors = []

    # status: ok | violation | inconclusive | info
    def add(self, key, status, clause="", detail="", **extra):
        self.items.append(dict(key=key, status=status, clause=clause, detail=detail, extra=extra))

    def count_query(self, verdict, n=1):
        self.queries[verdict] = self.queries.get(verdict, 0) + n

    def harness_error(self, msg):
        self.harness_errors.append(msg)

    def note_xsolver(self, rec):
        """second-solver (cvc5) verdict on a sampled z3-unsat query; reported in evidence as queries 'cvc5:<verdict>'."""
        xs = rec.get("xsolver") if isinstance(rec, dict) else None
        if xs:
            self.count_query("cvc5:" + xs.split(":")[0])

    def finish(self, floors=None):
        """Print verdict lines, write evidence, return exit code."""
        findings = Findings(self.prop)
        new_violations = []
        known = 0
        hashes = {}
        for it in self.items:
            if it["status"] != "violation":
                continue
            if it["clause"] == "value" and it["extra"].get("il"):
                hashes[it["key"]] = it["extra"]["il"]
            e = findings.match(it["key"], it["clause"], it["extra"])
            if e is None:
                if any(k == it["key"] for k, _ in findings.changed):
                    it["detail"] += " [listed as a known finding, but the code emitted now is not equivalent to the code the finding was recorded on]"
                new_violations.append(it)
            else:
                known += 1
        for e in findings.entries:
            hit = findings.hits.get(e["id"], [])
            if hit:
                print(f"KNOWN-FINDING: property={self.prop} {e['id']}: {e['what']} "
                      f"({len(hit)} of {len(e['keys'])} listed inputs reproduced in this run)")
        code = 0
        os.makedirs(os.path.join(VERIF, "replays", self.prop), exist_ok=True)
        for it in new_violations[:50]:
            path = write_replay(self.prop, it)
            print(f"VIOLATION property={self.prop} replay={path}")
            print(f"  {it['key'][:200]} [{it['clause']}] {it['detail'][:300]}")
            code = 1
        with open(os.path.join(VERIF, "replays", self.prop, "_last_violation_il.json"), "w") as f:
            json.dump(hashes, f, indent=0)
        with open(os.path.join(VERIF, "replays", self.prop, "_last_new_violations.json"), "w") as f:
            json.dump([dict(key=it["key"], clause=it["clause"], detail=it["detail"]) for it in new_violations], f, indent=0)
        if len(new_violations) > 50:
            print(f"  ... and {len(new_violations) - 50} more violations (see evidence)")
        n_inc = sum(1 for it in self.items if it["status"] == "inconclusive")
        n_ok = sum(1 for it in self.items if it["status"] == "ok")
        if self.harness_errors:
            for m in self.harness_errors[:20]:
                print(f"HARNESS-ERROR property={self.prop}: {m[:500]}")
            if code == 0:
                code = 2
        # coverage floor: a collapse of decided items is a failure of the check, not a pass
        if floors:
            for name, (got, need) in floors.items():
                if got < need:
                    print(f"HARNESS-ERROR property={self.prop}: coverage floor '{name}': {got} < {need}")
                    if code == 0:
                        code = 2
        wall = time.time() - self.t0
        cov = dict(self.coverage)
        cov.setdefault("evaluations", len(self.items))
        cov.setdefault("samples", self.samples[:12] or [it["key"] for it in self.items[:5]])
        cov["decided_ok"] = n_ok
        cov["inconclusive"] = n_inc
        cov["violations_new"] = len(new_violations)
        cov["violations_known"] = known
        cov["queries_by_verdict"] = self.queries
        cov["solver_wall_s"] = round(self.solver_time, 2)
        if self.notes:
            cov["notes"] = self.notes[:20]
        inc_list = [dict(key=it["key"][:200], clause=it["clause"], detail=it["detail"][:200])
                    for it in self.items if it["status"] == "inconclusive"]
        if inc_list:
            cov["inconclusive_items"] = inc_list[:60]
        if new_violations:
            cov["violation_items"] = [dict(key=it["key"][:300], clause=it["clause"], detail=it["detail"][:300])
                                      for it in new_violations[:60]]
        ev = dict(property_id=self.prop, tier=self.tier, seed=seed(), level=self.level, coverage=cov,
                  assumptions=self.assumptions, wall_s=round(wall, 2), violations=len(new_violations))
        os.makedirs(os.path.join(VERIF, "evidence"), exist_ok=True)
        tmp = os.path.join(VERIF, "evidence", f".{self.prop}.json.tmp")
        with open(tmp, "w") as f:
            json.dump(ev, f, indent=1, default=str)
        os.replace(tmp, os.path.join(VERIF, "evidence", f"{self.prop}.json"))
        print(f"{self.prop} [{self.tier}] items={len(self.items)} ok={n_ok} inconclusive={n_inc} "
              f"known={known} new_violations={len(new_violations)} wall={wall:.1f}s exit={code}")
        return code


def write_replay(prop, it):
    h = hashlib.sha256((it["key"] + "|" + it["clause"]).encode()).hexdigest()[:16]
    path = os.path.join(VERIF, "replays", prop, f"{h}.json")
    with open(path, "w") as f:
        json.dump(dict(property=prop, key=it["key"], clause=it["clause"], detail=it["detail"], extra=it["extra"],
                       replay_cmd=f"/verif/check {prop} --replay {path}"), f, indent=1, default=str)
    return path


def load_baseline(name, default=None):
    p = os.path.join(VERIF, "baselines", name)
    if not os.path.exists(p):
        return default
    with open(p) as f:
        return json.load(f)
