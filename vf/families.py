"""Bounded program families (generated from explicit grammars; exhaustive up to the stated depth,
seeded-random beyond).  No family uses one operand letter with two register widths."""
import itertools
import random
from .framework import seed

TYPES = [("uint8_t", 8, False), ("int8_t", 8, True), ("uint16_t", 16, False), ("int16_t", 16, True),
         ("uint32_t", 32, False), ("int32_t", 32, True), ("uint64_t", 64, False), ("int64_t", 64, True)]
TNAME = [t[0] for t in TYPES]
BINOPS = ["+", "-", "*", "&", "|", "^", "<<", ">>", "<", ">", "<=", ">=", "==", "!=", "&&", "||"]
ARITH = ["+", "-", "*", "&", "|", "^"]
SHIFT = ["<<", ">>"]
CMP = ["<", ">", "<=", ">=", "==", "!="]
LOGIC = ["&&", "||"]
UNOPS = ["~", "-", "!"]


def src(w, letter):
    """Source operand of the right width: letter s,t,u,v (pairs for 64 bit)."""
    return f"R{letter}{letter}V" if w == 64 else f"R{letter}V"


def decl(tname, w, var, letter):
    return f"{tname} {var} = {src(w, letter)};"


def c02_depth1():
    out = []
    for (t1, w1, _), (t2, w2, _), op in itertools.product(TYPES, TYPES, BINOPS):
        out.append(f"{{ {decl(t1, w1, 'a', 's')} {decl(t2, w2, 'b', 't')} RddV = a {op} b; }}")
    for (t1, w1, _), op in itertools.product(TYPES, UNOPS):
        out.append(f"{{ {decl(t1, w1, 'a', 's')} RddV = {op}a; }}")
    # ?: over arm types x condition kinds
    for (t1, w1, _), (t2, w2, _) in itertools.product(TYPES, TYPES):
        out.append(f"{{ {decl(t1, w1, 'a', 's')} {decl(t2, w2, 'b', 't')} RddV = (RuV > 0) ? a : b; }}")
        out.append(f"{{ {decl(t1, w1, 'a', 's')} {decl(t2, w2, 'b', 't')} RddV = RuV ? a : b; }}")
    for (t1, w1, _) in TYPES:
        out.append(f"{{ {decl(t1, w1, 'a', 's')} RddV = a ? RtV : RuV; }}")
    return out


def c02_depth2(tier, rng):
    """(a OP1 b) OP2 c and a OP1 (b OP2 c): all operator pairs over a covering set of type triples."""
    out = []
    ops = ARITH + SHIFT + CMP
    base = ["uint8_t", "int16_t", "uint32_t", "int64_t"]
    triples = list(itertools.product(base, repeat=3)) if tier == "thorough" else None
    for op1, op2 in itertools.product(ops, ops):
        if triples is None:
            ts = [tuple(rng.choice(TNAME) for _ in range(3)) for _ in range(2)]
        else:
            ts = triples
        for (t1, t2, t3) in ts:
            w = {n: ww for n, ww, _ in TYPES}
            d = f"{decl(t1, w[t1], 'a', 's')} {decl(t2, w[t2], 'b', 't')} {decl(t3, w[t3], 'c', 'u')}"
            out.append(f"{{ {d} RddV = (a {op1} b) {op2} c; }}")
            out.append(f"{{ {d} RddV = a {op1} (b {op2} c); }}")
    return out


def rand_expr(rng, depth, vars_, ops, unops=("~", "-"), consts=("3", "0x10", "1", "7")):
    """Random tree whose leaves are variables; a constant only appears as the right operand of an
    operator whose left operand is not constant (constant-only subtrees are C09's subject)."""
    if depth == 0 or rng.random() < 0.2:
        return rng.choice(vars_)
    r = rng.random()
    if r < 0.15 and unops:
        return f"({rng.choice(unops)}{rand_expr(rng, depth - 1, vars_, ops, unops, consts)})"
    if r < 0.25:
        t = rng.choice(TNAME)
        return f"(({t}){rand_expr(rng, depth - 1, vars_, ops, unops, consts)})"
    op = rng.choice(ops)
    left = rand_expr(rng, depth - 1, vars_, ops, unops, consts)
    if consts and rng.random() < 0.25:
        return f"({left} {op} {rng.choice(consts)})"
    return f"({left} {op} {rand_expr(rng, depth - 1, vars_, ops, unops, consts)})"


def c02_random(tier, rng):
    """Depth 3-4 trees over + - * & | ^ << >> and comparisons (results of ! && || and ?: with mixed narrow
    arms are covered exhaustively at depth 1 and listed as findings, so they are not mixed in here)."""
    out = []
    n = 400 if tier == "thorough" else 80
    for _ in range(n):
        ts = [rng.choice(TYPES) for _ in range(3)]
        d = " ".join(decl(t[0], t[1], v, l) for t, v, l in zip(ts, "abc", "stu"))
        e = rand_expr(rng, rng.choice([3, 4]), ["a", "b", "c"], ARITH + SHIFT + CMP)
        out.append(f"{{ {d} RddV = {e}; }}")
    return out


def c02(tier):
    rng = random.Random(seed() * 7919 + 2)
    return c02_depth1() + c02_depth2(tier, rng) + c02_random(tier, rng)


def wf_family(prop, tier):
    return []


def layout_family(tier):
    return []
