"""Bounded program families (generated from explicit grammars; exhaustive up to the stated depth,
seeded-random beyond).  No family uses one operand letter with two register widths."""
import itertools
import random
from .framework import seed

TYPES = [("uint8_t", 8, False), ("int8_t", 8, True), ("uint16_t", 16, False), ("int16_t", 16, True),
         ("uint32_t", 32, False), ("int32_t", 32, True), ("uint64_t", 64, False), ("int64_t", 64, True)]
TNAME = [t[0] for t in TYPES]
# the other widths the grammar's BIT_WIDTH terminal admits (1, 2 and 4 bit): rank = width, promoted to int like every type below 32 bit
NARROW = [("uint1_t", 1, False), ("int1_t", 1, True), ("uint2_t", 2, False), ("int2_t", 2, True), ("uint4_t", 4, False), ("int4_t", 4, True)]
BINOPS = ["+", "-", "*", "&", "|", "^", "<<", ">>", "<", ">", "<=", ">=", "==", "!=", "&&", "||"]
ARITH = ["+", "-", "*", "&", "|", "^"]
SHIFT = ["<<", ">>"]
CMP = ["<", ">", "<=", ">=", "==", "!="]
LOGIC = ["&&", "||"]
UNOPS = ["~", "-", "!"]


def src(w, letter):
    """Source operand of the right width: letter s,t,u,v (pairs for 64 bit)."""
    return f"R{letter}{letter}V" if w == 64 else f"R{letter}V"


def decl(tname, w, var, letter):
    return f"{tname} {var} = {src(w, letter)};"


def c02_depth1():
    out = []
    for (t1, w1, _), (t2, w2, _), op in itertools.product(TYPES, TYPES, BINOPS):
        out.append(f"{{ {decl(t1, w1, 'a', 's')} {decl(t2, w2, 'b', 't')} RddV = a {op} b; }}")
    for (t1, w1, _), op in itertools.product(TYPES, UNOPS):
        out.append(f"{{ {decl(t1, w1, 'a', 's')} RddV = {op}a; }}")
    # ?: over arm types x condition kinds
    for (t1, w1, _), (t2, w2, _) in itertools.product(TYPES, TYPES):
        out.append(f"{{ {decl(t1, w1, 'a', 's')} {decl(t2, w2, 'b', 't')} RddV = (RuV > 0) ? a : b; }}")
        out.append(f"{{ {decl(t1, w1, 'a', 's')} {decl(t2, w2, 'b', 't')} RddV = RuV ? a : b; }}")
    for (t1, w1, _) in TYPES:
        out.append(f"{{ {decl(t1, w1, 'a', 's')} RddV = a ? RtV : RuV; }}")
    return out


def c02_depth2(tier, rng):
    """(a OP1 b) OP2 c and a OP1 (b OP2 c): all operator pairs over a covering set of type triples."""
    out = []
    ops = ARITH + SHIFT + CMP
    base = ["uint8_t", "int16_t", "uint32_t", "int64_t"]
    triples = list(itertools.product(base, repeat=3)) if tier == "thorough" else None
    for op1, op2 in itertools.product(ops, ops):
        if triples is None:
            ts = [tuple(rng.choice(TNAME) for _ in range(3)) for _ in range(2)]
        else:
            ts = triples
        for (t1, t2, t3) in ts:
            w = {n: ww for n, ww, _ in TYPES}
            d = f"{decl(t1, w[t1], 'a', 's')} {decl(t2, w[t2], 'b', 't')} {decl(t3, w[t3], 'c', 'u')}"
            out.append(f"{{ {d} RddV = (a {op1} b) {op2} c; }}")
            out.append(f"{{ {d} RddV = a {op1} (b {op2} c); }}")
    return out


def rand_expr(rng, depth, vars_, ops, unops=("~", "-"), consts=("3", "0x10", "1", "7")):
    """Random tree whose leaves are variables; a constant only appears as the right operand of an
    operator whose left operand is not constant (constant-only subtrees are C09's subject)."""
    if depth == 0 or rng.random() < 0.2:
        return rng.choice(vars_)
    r = rng.random()
    if r < 0.15 and unops:
        return f"({rng.choice(unops)}{rand_expr(rng, depth - 1, vars_, ops, unops, consts)})"
    if r < 0.25:
        t = rng.choice(TNAME)
        return f"(({t}){rand_expr(rng, depth - 1, vars_, ops, unops, consts)})"
    op = rng.choice(ops)
    left = rand_expr(rng, depth - 1, vars_, ops, unops, consts)
    if consts and rng.random() < 0.25:
        return f"({left} {op} {rng.choice(consts)})"
    return f"({left} {op} {rand_expr(rng, depth - 1, vars_, ops, unops, consts)})"


def c02_random(tier, rng):
    """Depth 3-4 trees over + - * & | ^ << >> and comparisons (results of ! && || and ?: with mixed narrow
    arms are covered exhaustively at depth 1 and listed as findings, so they are not mixed in here)."""
    out = []
    n = 400 if tier == "thorough" else 80
    for _ in range(n):
        ts = [rng.choice(TYPES) for _ in range(3)]
        d = " ".join(decl(t[0], t[1], v, l) for t, v, l in zip(ts, "abc", "stu"))
        e = rand_expr(rng, rng.choice([3, 4]), ["a", "b", "c"], ARITH + SHIFT + CMP)
        out.append(f"{{ {d} RddV = {e}; }}")
    return out


def c02_const_sides():
    """A literal on the LEFT or on the right of every binary operator, against every operand type (the operator must not be
    mirrored, commuted or re-typed because one side is constant)."""
    out = []
    for (t, w, _), op, k in itertools.product(TYPES, BINOPS, ["3", "7U", "(-5)", "200LL", "0x10", "1", "4U", "2LL", "256ULL", "8"]):
        if op in SHIFT and k in ("(-5)", "200LL", "256ULL"):
            continue
        d = decl(t, w, "a", "s")
        out.append(f"{{ {d} RddV = {k} {op} a; }}")
        out.append(f"{{ {d} RddV = a {op} {k}; }}")
    for (t, w, _), k in itertools.product(TYPES, ["4U", "2LL", "256ULL", "8", "16U"]):
        d = decl(t, w, "a", "s")
        out.append(f"{{ {d} RddV = (a * {k}) > RttV; }}")
        out.append(f"{{ {d} RddV = (a * {k}) >> 1; }}")
        out.append(f"{{ {d} RddV = ({k} * a) / 3U; }}" if False else f"{{ {d} RddV = ({k} * a) - RttV; }}")
    for (t, w, _), k in itertools.product(TYPES, ["3", "7U", "(-5)", "200LL"]):
        d = decl(t, w, "a", "s")
        out.append(f"{{ {d} RddV = ({k} <= a) ? {k} : a; }}")
        out.append(f"{{ {d} if ({k} >= a) {{ RddV = 1; }} else {{ RddV = {k} - a; }} }}")
    return out


def c02_narrow():
    """Operators and conversions on the 1-, 2- and 4-bit integer types."""
    out = []
    partners = NARROW + [TYPES[0], TYPES[3], TYPES[5], TYPES[6]]
    for (t1, w1, _), (t2, w2, _), op in itertools.product(NARROW, partners, BINOPS):
        out.append(f"{{ {decl(t1, w1, 'a', 's')} {decl(t2, w2, 'b', 't')} RddV = a {op} b; }}")
        if (t2, w2) not in [(n[0], n[1]) for n in NARROW]:
            out.append(f"{{ {decl(t2, w2, 'b', 't')} {decl(t1, w1, 'a', 's')} RddV = b {op} a; }}")
    for (t, w, _) in NARROW:
        d = decl(t, w, "a", "s")
        for u in UNOPS:
            out.append(f"{{ {d} RddV = {u}a; }}")
        out += [f"{{ {d} RddV = a ? 3 : 4; }}", f"{{ {d} RddV = (RtV > 0) ? a : -a; }}", f"{{ {d} if (a) {{ RddV = 1; }} else {{ RddV = 2; }} }}",
                f"{{ {d} RddV = (a && RtV) + (a || RtV) * 2; }}", f"{{ {d} for (i = 0; a && (i < 2); i++) {{ RxV = RxV + 1; }} }}",
                f"{{ {d} a++; RddV = a; }}", f"{{ {d} a--; RddV = a; }}", f"{{ {d} a += 9; RddV = a; }}", f"{{ {d} a <<= 1; RddV = a; }}",
                f"{{ {d} a >>= 1; RddV = a; }}", f"{{ {d} a *= 3; RddV = a; }}", f"{{ {d} a ^= RtV; RddV = a; }}", f"{{ {d} RddV = a++ + a--; }}",
                f"{{ RddV = ({t})RsV; }}", f"{{ RddV = ({t})RssV; }}", f"{{ RddV = ({t})(RsV > RtV); }}", f"{{ RddV = (int64_t)({t})RsV; }}",
                f"{{ RddV = (uint64_t)({t})RsV; }}", f"{{ if (({t})RsV) {{ RddV = 1; }} else {{ RddV = 2; }} }}", f"{{ RddV = (({t})RsV) ? RtV : RuV; }}",
                f"{{ {d} mem_store_u8(RtV, a); }}", f"{{ {d} PdV = a; }}", f"{{ {d} RxV = a; }}", f"{{ {t} q; q = mem_load_s8(RtV); RddV = q; }}",
                f"{{ {t} q; RxV = 0; for (q = RuV; q; q <<= 1) {{ RxV = RxV + 1; }} }}"]
        for (t2, w2, _) in TYPES + NARROW:
            out.append(f"{{ {d} {t2} b = a; RddV = b; }}")
            out.append(f"{{ {decl(t2, w2, 'b', 't')} {t} c = b; RddV = c; }}")
            out.append(f"{{ {d} RddV = ({t2})a; }}")
    return out


def c02_spellings():
    """The keyword spellings of the 32-bit types (`int`, `unsigned int`, `unsigned`, `signed int`) against every operand type."""
    out = []
    for sp, (t2, w2, _), op in itertools.product(["int", "unsigned int", "unsigned"], TYPES, BINOPS):
        out.append(f"{{ {sp} a = RsV; {decl(t2, w2, 'b', 't')} RddV = a {op} b; }}")
        out.append(f"{{ {sp} a = RsV; {decl(t2, w2, 'b', 't')} RddV = b {op} a; }}")
    for sp in ["int", "unsigned int", "unsigned"]:
        out += [f"{{ {sp} a = RsV; RddV = -a; }}", f"{{ {sp} a = RsV; RddV = ~a; }}", f"{{ {sp} a = RsV; RddV = (int64_t)a; }}", f"{{ {sp} a = RsV; RddV = a >> 3; }}",
                f"{{ {sp} a = RsV; RddV = RtV + a; }}", f"{{ {sp} a = RsV; RddV = (RtV > 0) ? a : RuuV; }}", f"{{ RddV = ({sp})RssV; }}", f"{{ {sp} a = RsV; a += RtV; RddV = a; }}"]
    return out


C02_PARAM_TYPES = [("uint8_t", "uint8_t"), ("int8_t", "uint16_t"), ("int16_t", "int16_t"), ("uint16_t", "int64_t")]


def c02_subs():
    """Every operator applied directly to the (narrow) parameters of a sub-routine: promotion and common type apply to parameters
    exactly as to locals."""
    subs = {}
    names = {"+": "add", "-": "sub", "*": "mul", "&": "and", "|": "or", "^": "xor", "<<": "shl", ">>": "shr", "<": "lt", ">": "gt", "<=": "le", ">=": "ge",
             "==": "eq", "!=": "ne", "&&": "land", "||": "lor"}
    for k, (tx, ty) in enumerate(C02_PARAM_TYPES):
        for op, nm in names.items():
            rhs = "(y & 7)" if op in SHIFT else "y"
            subs[f"vf_p{k}_{nm}"] = dict(return_type="int64_t", params=[f"{tx} x", f"{ty} y"], code=f"{{ return x {op} {rhs}; }}")
        for u, nm in (("~", "not"), ("-", "neg"), ("!", "lnot")):
            subs[f"vf_p{k}_{nm}"] = dict(return_type="int64_t", params=[f"{tx} x", f"{ty} y"], code=f"{{ return {u}x; }}")
        subs[f"vf_p{k}_cond"] = dict(return_type="int64_t", params=[f"{tx} x", f"{ty} y"], code="{ return (x > 3) ? x : y; }")
    return subs


def c02_param_calls():
    return [f"{{ RddV = {n}(RsV, RtV); }}" for n in c02_subs()]


def c02_const_truth():
    """&& and || with a compile-time truth value on one side: still the operator's C truth table."""
    out = []
    for k, y, op in itertools.product(["(2 > 1)", "(1 > 2)", "1", "0", "5", "(3 == 3)"], ["(RsV == 7)", "RsV", "(RsV > RtV)", "(!RsV)", "RssV"], ["&&", "||"]):
        out.append(f"{{ RddV = {k} {op} {y}; }}")
        out.append(f"{{ RddV = {y} {op} {k}; }}")
    return out


def c02_operand_kinds():
    """Operators applied directly to REGISTER operands of every class and width (the operand's type comes from its token: R/C/M
    32 bit signed, P 8 bit, pairs 64 bit, aliases unsigned): shifts, arithmetic, comparisons against a 64-bit partner."""
    out = []
    regs = ["RsV", "CsV", "MsV", "PsV", "NsN", "RssV", "CssV", "C1", "C1:0", "R3:2", "M1", "P2", "HEX_REG_ALIAS_USR", "HEX_REG_ALIAS_UPCYCLE"]
    for r_ in regs:
        wide = r_ in ("RssV", "CssV", "C1:0", "R3:2", "HEX_REG_ALIAS_UPCYCLE")
        for e in (f"{r_} >> 8", f"{r_} >> {33 if wide else 17}", f"{r_} + RttV", f"{r_} * RttV", f"{r_} < RttV", f"RttV > {r_}", f"-{r_}", f"~{r_}",
                  f"{r_} << 28", f"({r_} >> 4) ^ RttV", f"(RuV > 0) ? {r_} : RttV", f"{r_} < 0", f"!{r_}", f"{r_} && RttV"):
            out.append(f"{{ RddV = {e}; }}")
    for d_, s_ in (("CddV", "RssV"), ("CdV", "RssV"), ("CddV", "RsV"), ("MdV", "RssV"), ("PdV", "RssV"), ("RddV", "CssV")):
        out.append(f"{{ {d_} = {s_}; }}")
        out.append(f"{{ {d_} = {s_} >> 3; }}")
        out.append(f"{{ {d_} = {s_}; RxxV = {d_}; }}")
    return out


def c02(tier):
    rng = random.Random(seed() * 7919 + 2)
    nr = c02_narrow()
    return c02_operand_kinds() + c02_depth1() + c02_const_sides() + c02_const_truth() + c02_spellings() + c02_param_calls() + (nr if tier == "thorough" else nr[::3]) + c02_depth2(tier, rng) + c02_random(tier, rng)


def wf_subs():
    """Test sub-routines for the well-formedness checks: C08's set + bodies that mention hi / pkt / bundle in every combination."""
    subs = dict(c08_subs())
    subs.update({
        "vf_fadd": dict(return_type="uint32_t", params=["uint32_t a", "uint32_t b"],
                        code="{ return fUNFLOAT(FLOAT(RZ_FLOAT_IEEE754_BIN_32, a) + FLOAT(RZ_FLOAT_IEEE754_BIN_32, b)); }"),
        "vf_usr": dict(return_type="uint32_t", params=["HexInsnPktBundle *bundle"], code="{ return HEX_REG_ALIAS_USR + 1; }"),
        "vf_expl": dict(return_type="void", params=["HexInsnPktBundle *bundle", "int32_t v"], code="{ R1 = v; }"),
        "vf_pure": dict(return_type="uint16_t", params=["uint16_t a"], code="{ return a * a + a; }"),
        "vf_npc": dict(return_type="uint32_t", params=["HexInsnPktBundle *bundle"], code="{ return get_npc(pkt) & 0xfffffffe; }"),
        "vf_cancel": dict(return_type="void", params=["HexInsnPktBundle *bundle", "int32_t c"],
                          code="{ if (c) { STORE_SLOT_CANCELLED(pkt, slot); } }"),
    })
    return subs


def wf_family(prop, tier):
    """Programs for C10/C11/C12: the constructs of the other families that stress sorts, declarations and ownership."""
    rng = random.Random(seed() * 7919 + 10)
    out = []
    out += c05_assign() + c05_assign_narrow() + macro_args()[:-2]
    out += c06(tier)
    out += [p for p in c09(tier) if "?" in p or "sizeof" in p][:400]
    d1 = c02_depth1()
    out += d1 if tier == "thorough" else d1[::4]
    out += c05_struct()
    c3 = [p_ for p_ in c03(tier) if "({" not in p_]
    out += c3 if tier == "thorough" else c3[::2]
    c17p = c17(tier)
    out += c17p if tier == "thorough" else c17p[::3]
    # metadata / plugin-variable usage: explicit registers only, slot cancel, aliases, immediates only, nothing at all
    out += ["{ R0 = R1; }", "{ if (P0 & 1) { R0 = R1; } else { STORE_SLOT_CANCELLED(pkt, slot); } }", "{ STORE_SLOT_CANCELLED(pkt, slot); }",
            "{ HEX_REG_ALIAS_LR = HEX_REG_ALIAS_SP; }", "{ R0 = get_npc(pkt); }", "{ R0 = 1; }", "{ R0 = siV; }", "{ P0 = P1; }",
            "{ R1:0 = R3:2; }", "{ R0 = HEX_REG_ALIAS_PC; }", "{ R0 = NsN; }", "{ ; }", "{ }", "{ cancel_slot; }", "{ R0 = clz32(R1); }",
            "{ R0 = fUNFLOAT(FLOAT(RZ_FLOAT_IEEE754_BIN_32, R1) + FLOAT(RZ_FLOAT_IEEE754_BIN_32, R2)); }",
            "{ set_usr_field(bundle, HEX_REG_FIELD_USR_OVF, 1); }", "{ R0 = get_usr_field(bundle, HEX_REG_FIELD_USR_OVF); }",
            "{ vf_setd(bundle, RdV, 3); }", "{ RxV = vf_getx(bundle, RxV); }", "{ vf_setd(bundle, R3, 3); }", "{ RxV = vf_getx(bundle, R2); }",
            "{ RxV = vf_getx(bundle, HEX_REG_ALIAS_LR); }", "{ vf_setd(bundle, HEX_REG_ALIAS_SP, 4); }", "{ RxV = vf_getx(bundle, NsN); }", "{ RxV = vf_getx(bundle, P1); }",
            "{ vf_setd(bundle, P2, 1); }", "{ RxV = vf_getx(bundle, R1:0); }", "{ vf_setd(bundle, C1_NEW, 1); }", "{ RxV = vf_getx(bundle, R3_NEW); }", "{ vf_setd(bundle, M0, 1); }", "{ R0 = vf_fadd(R1, R2); }", "{ R0 = vf_usr(bundle); }",
            "{ vf_expl(bundle, R2); }", "{ R0 = vf_pure(R1); }", "{ R0 = vf_npc(bundle); }", "{ vf_cancel(bundle, R1); }",
            "{ int32_t hi_x = RsV; RdV = hi_x; }", "{ int32_t pktx = RsV; RdV = pktx; }", "{ int32_t this_hi = R1; R0 = this_hi; }"]
    # postfix operators and loop counters of every width
    for (t, w, _) in TYPES:
        out.append(f"{{ {decl(t, w, 'n', 's')} n++; RddV = n; }}")
        out.append(f"{{ {decl(t, w, 'n', 's')} n--; RddV = n; }}")
        out.append(f"{{ {decl(t, w, 'n', 's')} RddV = n++ + n--; }}")
        out.append(f"{{ {t} q; for (q = 0; q < 3; q++) {{ RxV = RxV + q; }} }}")
        out.append(f"{{ {t} q; for (q = 3; q > 0; q--) {{ RxV = RxV + q; }} }}")
        out.append(f"{{ {decl(t, w, 'n', 's')} RddV = (RtV > 0) ? n : -n; }}")
        out.append(f"{{ {decl(t, w, 'n', 's')} RddV = ~n; RxV = !n; }}")
    # heavy operand re-use
    for n in (2, 3, 5, 9):
        out.append("{ RdV = " + " + ".join(["RsV"] * n) + "; }")
        out.append("{ RdV = " + " ^ ".join(["siV"] * n) + "; }")
        out.append("{ int32_t v = RsV; RdV = " + " * ".join(["v"] * n) + "; }")
        out.append("{ RxV = " + " + ".join(["RxV"] * n) + "; }")
        out.append("{ RdV = " + " + ".join(["clz32(RsV)"] * min(n, 4)) + "; }")
        out.append("{ EA = RsV; RdV = " + " + ".join(["(int32_t)mem_load_u8(EA)"] * min(n, 4)) + "; }")
        out.append("{ RdV = " + " | ".join(["P0"] * n) + "; }")
        out.append("{ RdV = " + " + ".join(["HEX_REG_ALIAS_SP"] * n) + "; }")
    for k in ["2 < 1", "1 < 2", "sizeof(int64_t) != 8", "sizeof(int32_t) == 4", "0", "1", "(3 == 3) && (2 > 1)", "!1"]:
        out += [f"{{ for (i = 0; {k}; i++) {{ RxV = RxV + 1; i = 5; }} }}", f"{{ if ({k}) {{ RxV = 1; }} else {{ RxV = RxV + 2; }} }}", f"{{ RxV = ({k}) ? RsV : RtV; }}",
                f"{{ RxV = RxV + (({k}) && RsV); }}", f"{{ RxV = RxV + (({k}) || RsV); }}", f"{{ RxV = RxV + !({k}); }}", f"{{ PdV = ({k}); }}", f"{{ mem_store_u8(RsV, ({k})); }}"]
    import re as _re
    # operand programs whose load / store ADDRESS is an expression (the address computation is an operand of the load node)
    out += [p_ for p_ in c07(tier) if _re.search(r"mem_(load|store)_\w+\([^,)]*[-+]", p_) and "RyyV =" not in p_]
    out += ["{ RxxV = mem_load_u32(RsV + 4); }", "{ RxxV = mem_load_s8(RsV + RtV) + mem_load_s8(RsV - RtV); }", "{ RxxV = mem_load_u16((RsV << 2) + uiV); }",
            "{ mem_store_u32(RsV + 4, mem_load_u32(RtV + 8)); }", "{ if (mem_load_u8(RsV + 1)) { RxxV = 1; } }", "{ RxxV = clz32(mem_load_u32(RsV + 12)); }"]
    for tok in ["R1:0", "R3", "C1:0_NEW", "P1", "M0", "R3_NEW", "HEX_REG_ALIAS_UTIMER", "HEX_REG_ALIAS_LR_NEW", "RssV", "NsN", "PtN", "RxxV"]:
        for n in (2, 3):
            out.append("{ RyyV = RyyV + " + " + ".join([tok] * n) + "; }")
            out.append("{ RyyV = RyyV + (" + f"{tok} * {tok}" + ") - " + tok + "; }")
    out += mixed(tier, 2500 if tier == "thorough" else 200, salt=10, stmt_expr=False)
    nr = c02_narrow()
    out += nr if tier == "thorough" else nr[1::2]
    return list(dict.fromkeys(out))


def macro_args():
    """Plugin macros (up to four parameters) with a COMPUTED value in every argument position (each argument is an operation of
    its own that the statement has to declare / execute in both layouts)."""
    return ["{ RdV = deposit32(RsV, 0, 8, RtV + 1); }", "{ RdV = deposit32(RsV + 1, 0, 8, RtV); }", "{ RddV = deposit64(RssV, 8, 16, RttV * 3); }",
            "{ RdV = deposit32(RsV, 4, 8, (RtV < RuV) ? RtV : RuV); }", "{ RdV = extract32(RsV ^ RtV, 4, 8); }",
            "{ RddV = sextract64(RssV + RttV, 3, 9); }", "{ RddV = extract64(RssV - RttV, 0, 33); }",
            "{ RdV = deposit32(deposit32(RsV, 0, 8, RtV & 15), 8, 8, RuV + 2); }", "{ RdV = bswap32(RsV + RtV); }",
            "{ RdV = deposit32(RsV * 3, 0, 8, RtV - RuV) + extract32(RuV + 1, 2, 5); }",
            "{ if (RuV) { RdV = deposit32(RsV, 0, 8, RtV + 1); } else { RdV = deposit32(RsV, 8, 8, RtV - 1); } }",
            "{ for (i = 0; i < 2; i++) { RxV = deposit32(RxV, 0, 8, RtV + i); } }",
            "{ RdV = deposit32(RsV, 0, 8, clz32(RtV)); }", "{ RdV = deposit32(RsV, 0, 8, RxV++); }"]


def layout_family(tier):
    """Programs for C16: every statement/expression kind the two emitters order differently (hybrids, loops, branches,
    nested blocks, immediates, folded constants, sub-routine calls)."""
    rng = random.Random(seed() * 7919 + 16)
    out = []
    out += c05_struct()
    out += c06(tier)[:: (1 if tier == "thorough" else 3)]
    out += c05_assign()[:: (1 if tier == "thorough" else 5)]
    d1 = c02_depth1()
    out += d1[:: (3 if tier == "thorough" else 16)]
    out += [p for p in c09(tier) if "?" in p][:: (1 if tier == "thorough" else 4)]
    out += c05_random(tier, rng)
    out += c07(tier)[:: (1 if tier == "thorough" else 5)]
    out += mixed(tier, 2000 if tier == "thorough" else 150, salt=16)
    c3 = c03(tier)
    out += c3[:: (1 if tier == "thorough" else 4)]
    c17p = c17(tier)
    out += c17p[:: (1 if tier == "thorough" else 5)]
    out += C15_TOPLEVEL
    nr = c02_narrow()
    out += nr[:: (2 if tier == "thorough" else 9)]
    out += macro_args()
    return list(dict.fromkeys(out))


# ------------------------------------------------------------------------------------------ C03

def c03_subs():
    """Test sub-routines registered through Compiler.add_sub_routine: identity per type (argument conversion)
    and S -> T returners (return conversion)."""
    subs = {}
    for t, w, s in TYPES:
        subs[f"vf_id_{t}"] = dict(return_type=t, params=[f"{t} x"], code="{ return x; }")
    for (s_, _, _), (t, _, _) in itertools.product(TYPES, TYPES):
        if s_ != t:
            subs[f"vf_conv_{s_}_{t}"] = dict(return_type=t, params=[f"{s_} x"], code="{ return x; }")
    return subs


def c03(tier):
    rng = random.Random(seed() * 7919 + 3)
    out = []
    for (s_, ws, _), (t, wt, _) in itertools.product(TYPES, TYPES):
        d = decl(s_, ws, "a", "s")
        out.append(f"{{ {d} RddV = ({t})a; }}")                       # explicit cast
        out.append(f"{{ {d} {t} b = a; RddV = b; }}")                  # initialiser
        out.append(f"{{ {d} {t} b; b = a; RddV = b; }}")               # assignment to a declared local
        out.append(f"{{ {d} RddV = vf_id_{t}(a); }}")                  # argument conversion
        if s_ != t:
            out.append(f"{{ {d} RddV = vf_conv_{s_}_{t}(a); }}")       # return conversion
    for (s_, ws, _) in TYPES:
        d = decl(s_, ws, "a", "s")
        out.append(f"{{ {d} RdV = a; }}")                               # 32-bit register
        out.append(f"{{ {d} RddV = a; }}")                              # 64-bit register
        out.append(f"{{ {d} PdV = a; }}")                               # predicate register
        out.append(f"{{ {d} RxV = a; }}")
        for al in ("UTIMER", "PKTCOUNT", "UPCYCLE", "LR"):
            out.append(f"{{ {d} HEX_REG_ALIAS_{al} = a; }}")
            out.append(f"{{ {d} HEX_REG_ALIAS_{al} = a; RddV = HEX_REG_ALIAS_{al}; }}")
        out.append(f"{{ {d} RddV = extract64(a, 4, 8); }}")             # argument of a bit-field macro (uint64_t)
        out.append(f"{{ {d} RddV = sextract64(a, 0, 16); }}")
        out.append(f"{{ {d} RdV = extract32(a, 3, 7); }}")
        out.append(f"{{ {d} RdV = bswap32(a); }}")
        out.append(f"{{ {d} RddV = deposit64(RttV, 8, 16, a); }}")
        for sg, w in itertools.product("us", (8, 16, 32, 64)):
            out.append(f"{{ {d} mem_store_{sg}{w}(RtV, a); }}")        # memory store of width w
            out.append(f"{{ {d} EA = RtV; mem_store_{sg}{w}(EA, a); RddV = mem_load_{sg}{w}(EA); }}")
    # the source of the conversion is a value-producing operation (postfix, call, statement-expression, macro, load) in every
    # conversion context: initialiser, assignment, cast, argument, register write, store
    for (s_, ws, _), (t, wt, _) in itertools.product(TYPES, TYPES):
        if s_ == t:
            continue
        d = decl(s_, ws, "a", "s")
        out.append(f"{{ {d} {t} y = a++; RddV = y; }}")
        out.append(f"{{ {d} {t} y = vf_id_{s_}(a); RddV = y; }}")
        out.append(f"{{ {d} {t} y = ({{ a = a + 1; a; }}); RddV = y; }}")
        out.append(f"{{ {d} {t} y; y = a--; RddV = y; }}")
        out.append(f"{{ {d} RddV = ({t})a++; }}")
        out.append(f"{{ {d} RddV = ({t})vf_id_{s_}(a); }}")
    for (t, wt, _) in TYPES:
        out.append(f"{{ {t} y = clz32(RsV); RddV = y; }}")
        out.append(f"{{ {t} y = fbrev(RsV); RddV = y; }}")
        out.append(f"{{ {t} y = extract32(RsV, 4, 13); RddV = y; }}")
        out.append(f"{{ {t} y = sextract64(RssV, 4, 40); RddV = y; }}")
        out.append(f"{{ {t} y = mem_load_s16(RsV); RddV = y; }}")
        out.append(f"{{ {t} y = mem_load_u32(RsV); RddV = y; }}")
        out.append(f"{{ {t} y = (RsV > 0) ? RtV : RuuV; RddV = y; }}")
    # boolean source
    for (t, wt, _) in TYPES:
        out.append(f"{{ RddV = ({t})(RsV < RtV); }}")
        out.append(f"{{ {t} b = (RsV == RtV); RddV = b; }}")
        out.append(f"{{ {t} b; b = !RsV; RddV = b; }}")
        out.append(f"{{ RddV = vf_id_{t}(RsV > RtV); }}")
        out.append(f"{{ RddV = vf_id_{t}(RsV && RtV); }}")
    out += ["{ RdV = (RsV < RtV); }", "{ RddV = (RsV <= RtV); }", "{ PdV = (RsV != RtV); }", "{ RdV = !RsV; }",
            "{ PdV = !RsV; }", "{ RdV = (RsV || RtV); }", "{ mem_store_u8(RuV, (RsV < RtV)); }",
            "{ mem_store_u32(RuV, !RsV); }", "{ RxV = (RxV < RtV); }"]
    # folded constants (negative folded values of unsigned type, boundary values) converted to every type and mixed with 64-bit operands
    consts = ["~0x7U", "(0U - 1U)", "-1", "~0", "-128", "0xffU", "(1U - 2U)", "~0ULL", "-1LL", "~0x7", "(3U * 5U)", "(2 - 3)", "(0xffffffffU + 0)"]
    for c in consts:
        for (t, wt, _) in TYPES:
            out.append(f"{{ RddV = ({t}){c}; }}")
        out.append(f"{{ RddV = RssV & {c}; }}")
        out.append(f"{{ uint64_t u = RssV; RddV = u & {c}; }}")
        out.append(f"{{ uint64_t u = RssV; RddV = u + {c}; }}")
        out.append(f"{{ RddV = RssV + {c}; }}")
        out.append(f"{{ mem_store_u64(RtV, {c}); }}")
        out.append(f"{{ RddV = vf_id_uint64_t({c}); }}")
        out.append(f"{{ RddV = vf_id_int64_t({c}); }}")
    # chains of up to three conversions
    triples = list(itertools.product(TNAME, repeat=3))
    if tier != "thorough":
        triples = rng.sample(triples, 96)
    for t1, t2, t3 in triples:
        out.append(f"{{ RddV = ({t3})({t2})({t1})RssV; }}")
        if tier == "thorough":
            out.append(f"{{ {t1} a = RsV; {t2} b = a; {t3} c = b; RddV = c; }}")
    for t1, t2 in itertools.product(TNAME, repeat=2):
        out.append(f"{{ RddV = ({t2})({t1})RsV; }}")
    return out


# ------------------------------------------------------------------------------------------ C05
ASSIGN_OPS = ["=", "+=", "-=", "*=", "/=", "%=", "<<=", ">>=", "&=", "^=", "|="]
CONDS = ["RsV > 0", "RsV & 1", "RxV == RyV", "RsV", "(RsV < RtV) && (RtV != 0)", "!RtV"]
SIMPLE = ["RxV = RxV * 3 + 1;", "RxV ^= RsV;", "RyV = RyV + RxV;", "mem_store_u32(RtV, RxV);",
          "RyV = (int32_t)mem_load_u32(RtV) + RxV;", "n = n * 5 + RxV;", "RxV = n;", ";", "{ }", "{ RxV = RxV + 2; ; }",
          "mem_store_u8(RtV + 1, RyV);", "RyV -= 7;"]


def c05_assign():
    out = []
    for op in ASSIGN_OPS:
        rhs_types = TYPES
        for (t, w, _) in rhs_types:
            d = decl(t, w, "a", "s")
            rhs = "(a & 7)" if op in ("<<=", ">>=") else "(a | 1)" if op in ("/=", "%=") else "a"
            out.append(f"{{ {d} RxV {op} {rhs}; }}")
            out.append(f"{{ {d} RxxV {op} {rhs}; }}")
            for (lt, lw, _) in TYPES:
                if lw >= 32:
                    out.append(f"{{ {d} {lt} n = RtV; n {op} {rhs}; RddV = n; }}")
        out.append(f"{{ RdV {op} (RsV | 1); }}")
        out.append(f"{{ PxV {op} (RsV | 1); }}")
    return out


def c05_assign_narrow():
    """Compound assignment on 8/16-bit locals (outside the property's 32/64-bit quantifier, kept as exploration)."""
    out = []
    for op in ASSIGN_OPS:
        for (lt, lw, _) in TYPES:
            if lw < 32:
                rhs = "(RsV & 3)" if op in ("<<=", ">>=") else "(RsV | 1)"
                out.append(f"{{ {lt} n = RtV; n {op} {rhs}; RddV = n; }}")
    return out


def c05_struct():
    out = []
    pre = "int32_t n = RsV;"
    for c in CONDS:
        for s1 in SIMPLE[:7]:
            out.append(f"{{ {pre} if ({c}) {{ {s1} }} RyV = RyV * 3 + RxV; }}")
            out.append(f"{{ {pre} if ({c}) {s1} else {{ RxV = RxV - 9; }} RyV = RyV * 3 + RxV; }}")
    for c1, c2 in itertools.product(CONDS[:4], CONDS[:4]):
        out.append(f"{{ {pre} if ({c1}) {{ RxV = 1; }} else if ({c2}) {{ RxV = 2; }} else {{ RxV = 3; }} RyV = RxV; }}")
        out.append(f"{{ {pre} if ({c1}) {{ if ({c2}) {{ RxV = 1; }} else {{ RxV = 2; }} RyV = RxV + 5; }} }}")
        out.append(f"{{ {pre} if ({c1}) {{ RxV = 1; }} else if ({c2}) {{ RxV = 2; }} else if (RtV > 5) {{ RxV = 3; }} "
                   f"else if (RtV < -5) {{ RxV = 4; }} RyV = RxV * 2; }}")
    # for loops: constant trip counts 0..8, data-dependent trip counts, nesting
    for k in range(0, 9):
        out.append(f"{{ {pre} for (i = 0; i < {k}; i++) {{ RxV = RxV * 3 + i; }} RyV = RxV; }}")
        out.append(f"{{ {pre} int j; for (j = {k}; j > 0; j--) {{ n = n + j; mem_store_u8(RtV + j, n); }} RxV = n; }}")
    out.append(f"{{ {pre} for (i = 0; i < (RsV & 7); i++) {{ RxV = RxV * 3 + i; }} RyV = RxV; }}")
    out.append(f"{{ {pre} for (i = 0; i < (RsV & 7); i++) {{ if (i & 1) {{ RxV = RxV + i; }} else {{ RyV = RyV ^ RxV; }} }} }}")
    out.append(f"{{ {pre} for (i = (RsV & 3); i < 6; i = i + 2) {{ n += i; }} RxV = n; }}")
    out.append(f"{{ {pre} for (i = 0; i < 3; i++) {{ for (j = 0; j < (RsV & 3); j++) {{ RxV = RxV * 5 + i + j; }} RyV += RxV; }} }}")
    out.append(f"{{ {pre} for (i = 0; i < 2; i++) {{ for (j = 0; j < 2; j++) {{ for (k = 0; k < 2; k++) {{ n = n * 2 + (i ^ j ^ k); }} }} }} RxV = n; }}")
    out.append(f"{{ {pre} for (i = 0; i < 4; i++) {{ mem_store_u8(RtV + i, RxV >> (8 * i)); }} RyV = mem_load_u32(RtV); }}")
    out.append(f"{{ {pre} for (i = 0; i < 0; i++) {{ RxV = 77; }} RyV = i; }}")
    out.append(f"{{ {pre} for (i = 5; i < 3; i++) {{ RxV = 77; }} RyV = i; }}")
    out.append(f"{{ {pre} int x; x = 3; {{ int z = x + n; RxV = z; }} {{ ; ; }} RyV = x; }}")
    # conditions of every width and signedness in every condition position
    for (t, w, _) in TYPES:
        dc = decl(t, w, "c", "u")
        out.append(f"{{ {dc} if (c) {{ RxV = 1; }} else {{ RxV = 2; }} }}")
        out.append(f"{{ {dc} RxV = c ? 1 : 2; }}")
        out.append(f"{{ {dc} RxV = !c; }}")
        out.append(f"{{ {dc} RxV = (c && RtV) + (c || RtV) * 2; }}")
        out.append(f"{{ {dc} for (i = 0; c && (i < 2); i++) {{ RxV = RxV + 1; }} }}")
        out.append(f"{{ {dc} if (c >> {w - 1}) {{ RxV = 1; }} }}")
        out.append(f"{{ {dc} if (c & ({'1ULL' if w == 64 else '1'} << {w - 1})) {{ RxV = 1; }} else {{ RxV = 2; }} }}")
    for (t, w, sg) in TYPES:
        sh = max(2, w // 4)
        if not sg:  # an arithmetic right shift of a negative value never reaches zero
            out.append(f"{{ {t} q; RxV = 0; for (q = {src(w, 'u')}; q; q >>= {sh}) {{ RxV = RxV + 1; }} }}")
            out.append(f"{{ {t} q; RxV = 0; for (q = {src(w, 'u')}; q != 0; q = q >> {sh}) {{ RxV = RxV + 2; }} RyV = RyV + q; }}")
        out.append(f"{{ {t} q; RxV = 0; for (q = {src(w, 'u')}; q; q <<= {sh}) {{ RxV = RxV + 1; }} }}")
        out.append(f"{{ {decl(t, w, 'q', 'u')} int m; RxV = 0; for (m = 0; q; m++) {{ q = q << {sh}; RxV = RxV + 1; }} RyV = RyV + m; }}")
    out += ["{ RxV = 1; /* one */ RyV = RyV + 2; }", "{ /* a */ RxV = 1; /* b */ RyV = RyV + 2; /* c */ }", "{ RxV = 1; /* a */ RyV = RyV + 2; /* b */ RxV = RxV + RyV; }",
            "{ if (RsV) { RxV = 1; } /* x */ else { RxV = 2; } /* y */ RyV = RyV + RxV; }", "{ RxV = 1; // line\n RyV = RyV + 2; }",
            "{ for (i = 0; i < 2; i++) { /* p */ RxV = RxV + 1; /* q */ } }", "{ RxV = /* in */ 3 /* side */ + RsV; }", "{ RxV = 1; /* a * b / c */ RyV = RyV + 2; /**/ RxV = 7; }"]
    for v_ in ["P0", "P3", "R3", "R13", "M0", "HEX_REG_ALIAS_LR", "HEX_REG_ALIAS_USR", "PeV", "CdV"]:
        out.append(f"{{ {v_} = RsV; RxV = {v_}; }}")
        out.append(f"{{ {v_} = RsV; RxV = {v_}; {v_} = RtV; RyV = RyV + {v_}; }}")
        out.append(f"{{ {v_} = RsV; if (RuV) {{ {v_} = RtV; }} RxV = {v_} + 1; }}")
        out.append(f"{{ {v_} = RsV; {v_} = {v_} + 1; RxV = {v_}; }}")
    # loop steps that are more than one effect
    out += [f"{{ {pre} int j; j = 0; for (i = 0; i < 3; i += j++) {{ RxV = RxV + i; i = i + 1; }} RyV = RyV + j; }}",
            f"{{ {pre} int j; j = 1; for (i = 0; i < 4; i += j++) {{ RxV = RxV * 2 + i; }} RyV = RyV + j; }}",
            f"{{ {pre} for (i = 0; i < 3; i = i + clz32(n | 0x40000000)) {{ RxV = RxV + i; }} }}",
            f"{{ {pre} int j; for (i = 0; i < 2; i++, j = i) {{ RxV = RxV + 1; }} }}" if False else f"{{ {pre} for (i = 0; i < 3; i += ({{ n = n + 1; 1; }})) {{ RxV = RxV + n; }} }}"]
    out.append("{ if (RssV) { RxV = 1; } else { RxV = 2; } }")
    out.append("{ if (RssV & 0xffffffff00000000ULL) { RxV = 1; } else { RxV = 2; } }")
    out.append("{ RxV = (RssV << 32) ? 1 : 2; }")
    out.append("{ for (i = 0; (RssV >> 33) && (i < 1); i++) { RxV = 7; } }")
    out.append(f"{{ {pre} RxV = RyV = n; }}")
    out.append(f"{{ {pre} RxV = RyV = RxV + 1; }}")
    out.append(f"{{ {pre} n = RxV = n + RxV; RyV = n; }}")
    out.append(f"{{ {pre} RxV = n = n * 2; RyV = n + RxV; }}")
    out.append(f"{{ {pre} int q; q = RxV = RsV + 1; RyV = q; }}")
    return out


def rand_stmt(rng, depth):
    r = rng.random()
    if depth == 0 or r < 0.45:
        return rng.choice(SIMPLE)
    if r < 0.65:
        return f"if ({rng.choice(CONDS)}) {{ {rand_block(rng, depth - 1)} }}"
    if r < 0.8:
        return f"if ({rng.choice(CONDS)}) {{ {rand_block(rng, depth - 1)} }} else {{ {rand_block(rng, depth - 1)} }}"
    if r < 0.93:
        v = "ijk"[depth % 3]
        bound = rng.choice(["2", "3", "(RsV & 3)", "1", "0"])
        return f"for ({v} = 0; {v} < {bound}; {v}++) {{ {rand_block(rng, depth - 1)} }}"
    return f"{{ {rand_block(rng, depth - 1)} }}"


def rand_block(rng, depth):
    return " ".join(rand_stmt(rng, depth) for _ in range(rng.choice([1, 2, 2, 3])))


def c05_random(tier, rng):
    n = 2500 if tier == "thorough" else 120
    out = []
    while len(out) < n:
        b = rand_block(rng, rng.choice([2, 3, 4]))
        if len(b) <= 420:  # Earley parse time grows quickly with length
            out.append(f"{{ int32_t n = RsV; {b} RyV = RyV * 7 + RxV + n; }}")
    return out


def c05(tier):
    rng = random.Random(seed() * 7919 + 5)
    seq2 = [f"{{ int32_t n = RsV; {a} {b} }}" for a, b in itertools.product(SIMPLE, SIMPLE)]
    return c05_assign() + c05_struct() + seq2 + c05_random(tier, rng)


# ------------------------------------------------------------------------------------------ C06
H_N = ["n++", "n--", "clz32(n)", "clo32(n)", "revbit32(n)", "conv_round(n, 3)", "fbrev(n)",
       "({ n = n * 3 + 1; n; })", "({ int32_t q7 = n + 2; n = q7 * 5; q7; })"]
H_M = ["m++", "m--", "clz32(m)", "clo32(m | 1)", "({ m = m ^ 9; m + 1; })"]
H_REG = ["RxV++", "RxV--", "({ RxV = RxV * 2 + 1; RxV; })", "get_usr_field(bundle, HEX_REG_FIELD_USR_OVF)"]
C06_PRE = "int32_t n = RsV; int32_t m = RtV; RyV = n;"
C06_POST = "RyV = RyV * 3 + n; RzV = RzV ^ m;"


def c06_contexts(h):
    return [
        f"int32_t q = {h}; RyV = RyV + q;",
        f"RyV = {h};",
        f"RyV = {h} + 7;",
        f"RyV = (m & 0xff) + {h};",
        f"if ({h} > 3) {{ RyV = RyV + 1; }} else {{ RyV = RyV - 1; }}",
        f"RyV = clz32({h});",
        f"RyV = (RuV > 0) ? {h} : 5;",
        f"RyV = (RuV > 0) ? 5 : {h};",
        f"{h};",
        f"mem_store_u32(RvV, {h});",
        f"for (i = 0; i < 2; i++) {{ RyV = RyV + {h}; }}",
        f"if (RuV) {{ RyV = {h}; }}",
        f"RyV = (RuV && {h});",
        f"RyV = (RuV || {h});",
        # un-braced arms and bodies, bare (value unused) in either arm
        f"if (RuV) {h};",
        f"if (RuV) RyV = 1; else {h};",
        f"if (RuV) {h}; else RyV = 2;",
        f"if (RuV) RyV = {h}; else RyV = 5;",
        f"if (RuV) RyV = 5; else RyV = {h};",
        f"for (i = 0; i < 2; i++) {h};",
        f"for (i = 0; i < 2; i++) RyV = RyV + {h};",
        f"if (RuV) {{ {h}; }} else {{ RyV = 3; }}",
        f"if (RuV) {{ RyV = 3; }} else {{ {h}; }}",
    ]


def c06(tier):
    rng = random.Random(seed() * 7919 + 6)
    out = []
    for h in H_N + H_REG:
        for ctx in c06_contexts(h):
            out.append(f"{{ {C06_PRE} {ctx} {C06_POST} }}")
    # two hybrids on independent state in one expression / statement
    for h1, h2 in itertools.product(H_N, H_M):
        out.append(f"{{ {C06_PRE} RyV = {h1} + {h2}; {C06_POST} }}")
    for h1, h2 in itertools.product(H_N[:5], H_M[:3]):
        out.append(f"{{ {C06_PRE} RyV = clz32({h1}) - {h2}; {C06_POST} }}")
        out.append(f"{{ {C06_PRE} if ({h1} > {h2}) {{ RyV = 1; }} {C06_POST} }}")
        out.append(f"{{ {C06_PRE} RyV = (RuV > 0) ? {h1} : {h2}; {C06_POST} }}")
    # a side effect in the CONDITION of a ?: whose arm is a statement-expression (condition first, then the selected arm only)
    for hc in ["(n++ > 0)", "(clz32(n) > 3)", "((n--) & 1)", "(({ n = n + 5; n; }) > 7)", "(revbit32(n) != 0)"]:
        for arm in ["({ m = m + 2; m; })", "({ RxV = RxV + 1; RxV; })"]:
            out.append(f"{{ {C06_PRE} RyV = {hc} ? {arm} : RtV; {C06_POST} }}")
            out.append(f"{{ {C06_PRE} RyV = {hc} ? RtV : {arm}; {C06_POST} }}")
            out.append(f"{{ {C06_PRE} RyV = {hc} ? {arm} : ({{ m = m * 3; m; }}); {C06_POST} }}")
            out.append(f"{{ {C06_PRE} if ({hc}) {{ RyV = {arm}; }} else {{ RyV = 9; }} {C06_POST} }}")
    for h in ["n++", "clz32(n)", "m--", "({ n = n + 2; n; })", "revbit32(m)", "RxV++"]:
        out.append(f"{{ {C06_PRE} n = n + 1; m = m & 1; for ({h}; m < 3; m++) {{ RyV = RyV + n; }} {C06_POST} }}")
        out.append(f"{{ {C06_PRE} n = n * 2; m = 0; for ({h}; m < 2; m = m + 1) {{ RyV = RyV ^ n; }} {C06_POST} }}")
        out.append(f"{{ {C06_PRE} for (i = 0; i < 2; {h}) {{ i = i + 1; RyV = RyV + n + m; }} {C06_POST} }}")
    # loop steps
    for step in ["i++", "i = i + 1", "i += 2", "n++", "n--"]:
        v = "i" if step[0] == "i" else "n"
        out.append(f"{{ {C06_PRE} for ({v} = 0; {v} < 5 && {v} > -5; {step}) {{ RyV = RyV * 3 + {v}; }} {C06_POST} }}")
    out += [
        f"{{ {C06_PRE} fcirc_add(bundle, RxV, siV, MuV, get_corresponding_CS(pkt, MuV)); RyV = RxV; {C06_POST} }}",
        f"{{ {C06_PRE} EA = RxV; fcirc_add(bundle, RxV, siV, MuV, get_corresponding_CS(pkt, MuV)); RyV = EA; {C06_POST} }}",
        f"{{ {C06_PRE} RyV = fcirc_add(bundle, RxV, siV, MuV, get_corresponding_CS(pkt, MuV)); {C06_POST} }}",
        f"{{ {C06_PRE} set_usr_field(bundle, HEX_REG_FIELD_USR_OVF, 1); RyV = get_usr_field(bundle, HEX_REG_FIELD_USR_OVF); {C06_POST} }}",
        f"{{ {C06_PRE} if (n > 0) {{ set_usr_field(bundle, HEX_REG_FIELD_USR_OVF, 1); }} {C06_POST} }}",
        f"{{ {C06_PRE} RyV = (n > 0) ? ({{ set_usr_field(bundle, HEX_REG_FIELD_USR_OVF, 1); 7; }}) : 3; {C06_POST} }}",
        f"{{ {C06_PRE} RyV = (n > 0) ? ((m > 0) ? ({{ set_usr_field(bundle, HEX_REG_FIELD_USR_OVF, 1); 7; }}) : 2) : 3; {C06_POST} }}",
        f"{{ {C06_PRE} RyV = (n > 0) ? 3 : ((m > 0) ? 2 : ({{ RxV = 9; 7; }})); {C06_POST} }}",
        f"{{ {C06_PRE} trap(0, 7); {C06_POST} }}",
        # both arms are statement-expressions / calls; several hybrids in one value-unused statement
        f"{{ {C06_PRE} RyV = (RuV > 0) ? ({{ n = n + 1; n; }}) : ({{ m = m + 2; m; }}); {C06_POST} }}",
        f"{{ {C06_PRE} RyV = (RuV > 0) ? ({{ RxV = RxV + 1; 3; }}) : ({{ RxV = RxV + 2; 4; }}); {C06_POST} }}",
        f"{{ {C06_PRE} RyV = (RuV > 0) ? ({{ set_usr_field(bundle, HEX_REG_FIELD_USR_OVF, 1); n; }}) : ({{ m = 5; m; }}); {C06_POST} }}",
        f"{{ {C06_PRE} RyV = (RuV > 0) ? clz32(n) : clo32(m); {C06_POST} }}",
        f"{{ {C06_PRE} RyV = (RuV > 0) ? ({{ n = n + 1; n; }}) : clo32(m); {C06_POST} }}",
        f"{{ {C06_PRE} n++ + m++; {C06_POST} }}",
        f"{{ {C06_PRE} clz32(n) + clo32(m); {C06_POST} }}",
        f"{{ {C06_PRE} n++ + clz32(m) + m--; {C06_POST} }}",
        f"{{ {C06_PRE} ({{ n = n + 1; n; }}) + m++; {C06_POST} }}",
        f"{{ {C06_PRE} n++, m++; {C06_POST} }}",
        f"{{ {C06_PRE} if (RuV) {{ n++ + m++; }} {C06_POST} }}",
        f"{{ {C06_PRE} for (i = 0; i < 2; i++) {{ n++ + m--; }} {C06_POST} }}",
        f"{{ {C06_PRE} n++; m++; n--; {C06_POST} }}",
        f"{{ {C06_PRE} n++; n++; m--; {C06_POST} }}",
        f"{{ {C06_PRE} RyV = n++; RyV = RyV + n++; {C06_POST} }}",
    ]
    # value-producing operations of every width as operand of every SINK (jump target, store address / value, predicate, pair,
    # alias and call-argument destinations): the operation runs after the statements before it and before the sink reads it
    for ty, src in (("int8_t", "RsV"), ("uint16_t", "RsV"), ("int32_t", "RsV"), ("int64_t", "RssV"), ("uint64_t", "RssV")):
        for h in ("a++", "a--", "({ a = a + 3; a; })", "(a++ + 1)"):
            for sink in (f"JUMP({h});", f"mem_store_u32({h}, RtV);", f"mem_store_u64(RtV, {h});", f"mem_store_u8(RtV, {h});",
                         f"PeV = {h};", f"RddV = {h};", f"RdV = clz32({h});", f"HEX_REG_ALIAS_LR = {h};",
                         f"if (RuV) {{ JUMP({h}); }}"):
                out.append(f"{{ {ty} a = {src}; RxV = 1; {sink} RzV = RzV + a; }}")
    return out


# ------------------------------------------------------------------------------------------ C07
ALIASES = ["PC", "SP", "LR", "FP", "GP", "FRAMEKEY", "LC0", "LC1", "SA0", "SA1", "USR", "UPCYCLE", "PKTCOUNT", "UTIMER",
           "CS0", "CS1", "M0", "M1", "P3_0", "UGP", "HTID"]
IMM_LETTERS = "rRsSuUmn"


def _obs(letter, wide=True):
    """observation destination that does not share the operand's letter"""
    l = "y" if letter == "x" else "x"
    return f"R{l}{l}V" if wide else f"R{l}V"


def c07(tier):
    out = []
    # letter operands (own table of the Hexagon operand syntax, from QEMU's hex_common.py)
    for cls in "RPCMN":
        for let in "stuvwdexyz":
            for pair in (False, True):
                if pair and cls == "N":
                    continue  # new-value operands are single registers in the Hexagon operand syntax
                for suf in "VN":
                    tok = f"{cls}{let}{let if pair else ''}{suf}"
                    srcv = "RttV" if pair else "RtV"
                    if let == "t":
                        srcv = "RssV" if pair else "RsV"
                    out.append(f"{{ {_obs(let)} = {tok}; }}")                        # read position
                    out.append(f"{{ {tok} = {srcv}; }}")                              # write position
                    out.append(f"{{ {tok} = {srcv}; {_obs(let)} = {tok}; }}")        # read after write
    # explicitly numbered registers
    for name in ["R0", "R1", "R3", "R10", "R11", "R22", "C11", "R13", "R29", "R31", "R32", "P0", "P1", "P2", "P3", "P4", "C0", "C1", "C9",
                 "C13", "M0", "M1", "G0", "S0", "R1:0", "R3:2", "R31:30", "C1:0", "C3:2"]:
        for new in ("", "_NEW"):
            tok = name + new
            out.append(f"{{ RxxV = {tok}; }}")
            out.append(f"{{ {tok} = RssV; }}" if ":" in name else f"{{ {tok} = RsV; }}")
            out.append(f"{{ {tok} = {'RssV' if ':' in name else 'RsV'}; RxxV = {tok}; }}")
    for a in ALIASES:
        for new in ("", "_NEW"):
            tok = f"HEX_REG_ALIAS_{a}{new}"
            out.append(f"{{ RxxV = {tok}; }}")
            out.append(f"{{ {tok} = RsV; }}")
            out.append(f"{{ {tok} = RsV; RxxV = {tok}; }}")
            out.append(f"{{ RxxV = {tok}; {tok} = RsV; RyyV = {tok}; }}")
    # the .new and the plain spelling of ONE register in one behaviour, in both orders (two operands, each with its own flag)
    for plain, new_ in [(f"HEX_REG_ALIAS_{a}", f"HEX_REG_ALIAS_{a}_NEW") for a in ("LR", "SP", "USR", "UPCYCLE", "P3_0", "M0")] + \
            [("R3", "R3_NEW"), ("P1", "P1_NEW"), ("C1", "C1_NEW"), ("R1:0", "R1:0_NEW"), ("RsV", "RsN"), ("PtV", "PtN")]:
        wide = "RxxV", "RyyV"
        out.append(f"{{ {wide[0]} = {new_}; {wide[1]} = {plain}; }}")
        out.append(f"{{ {wide[0]} = {plain}; {wide[1]} = {new_}; }}")
        out.append(f"{{ {wide[0]} = {new_} + {plain}; }}")
        out.append(f"{{ {wide[0]} = {plain} - {new_}; }}")
    # immediates
    for l in IMM_LETTERS:
        out.append(f"{{ RxxV = {l}iV; }}")
        out.append(f"{{ RxV = {l}iV >> 1; }}")
        out.append(f"{{ {l}iV = {l}iV & ~3; RxxV = {l}iV; }}")
        out.append(f"{{ RxxV = RssV + {l}iV; }}")
    out.append("{ RxxV = siV; RyyV = uiV; }")
    out.append("{ RxV = siV + SiV; RyV = uiV - UiV; }")
    # loads / stores
    for sg in "su":
        for w in (8, 16, 32, 64):
            out.append(f"{{ EA = RsV + siV; RxxV = mem_load_{sg}{w}(EA); }}")
            out.append(f"{{ RxxV = mem_load_{sg}{w}(RsV); }}")
            out.append(f"{{ EA = RsV; mem_store_{sg}{w}(EA, RttV); }}")
            out.append(f"{{ mem_store_{sg}{w}(RsV + uiV, RttV); RxxV = mem_load_{sg}{w}(RsV + uiV); }}")
            out.append(f"{{ EA = RsV; mem_store_{sg}{w}(EA, RttV); mem_store_u8(EA + 1, RuV); RxxV = mem_load_{sg}{w}(EA); }}")
    for w in (8, 16, 32, 64):
        out.append(f"{{ EA = RsV; RxxV = mem_load_s{w}(EA); RyyV = mem_load_u{w}(EA); }}")
        out.append(f"{{ EA = RsV; RxxV = mem_load_u{w}(EA); RyyV = mem_load_s{w}(EA); }}")
        out.append(f"{{ RxxV = mem_load_s{w}(RsV); RyyV = mem_load_u{w}(RsV); }}")
        for w2 in (8, 16, 32, 64):
            if w2 != w:
                out.append(f"{{ EA = RsV; RxxV = mem_load_s{w}(EA); RyyV = mem_load_s{w2}(EA); }}")
        out.append(f"{{ EA = RsV; RxxV = mem_load_s{w}(EA); mem_store_u8(EA, RtV); RyyV = mem_load_s{w}(EA); }}")
        out.append(f"{{ EA = RsV; RxxV = mem_load_u{w}(EA); EA = EA + 8; RyyV = mem_load_u{w}(EA); }}")
    # jumps and pc
    out += ["{ JUMP(RsV); }", "{ JUMP(HEX_REG_ALIAS_PC + riV); }", "{ JUMP(RssV); }", "{ if (PuV & 1) { JUMP(RsV); } }",
            "{ if (PuV & 1) { JUMP(RsV); } else { JUMP(RtV); } }", "{ JUMP(RsV); JUMP(RtV); }",
            "{ RxV = HEX_REG_ALIAS_PC; }", "{ RxxV = HEX_REG_ALIAS_PC; }", "{ JUMP(HEX_REG_ALIAS_LR); }",
            "{ riV = (riV & ~3); JUMP(HEX_REG_ALIAS_PC + riV); }", "{ HEX_REG_ALIAS_LR = HEX_REG_ALIAS_LR_NEW; }",
            "{ RxV = RsN + PtN; }", "{ RxV = NsN; }", "{ mem_store_u32(RsV, NtN); }", "{ PdV = PsV & PtN; }",
            "{ if (P0_NEW & 1) { RxV = RsV; } }", "{ P0 = RsV; P1 = RtV; RxV = P0 + P1; }", "{ cancel_slot; }",
            "{ STORE_SLOT_CANCELLED(pkt, hi->slot); }" if False else "{ if (PuV & 1) { RxV = 1; } else { cancel_slot; } }"]
    return out


# ------------------------------------------------------------------------------------------ C08
def c08_subs():
    subs = dict(c03_subs())
    subs.update({
        "vf_br": dict(return_type="int32_t", params=["int32_t a", "int32_t b"],
                      code="{ if (a > b) { return a - b; } else { return b - a; } }"),
        "vf_early": dict(return_type="int32_t", params=["int32_t a"], code="{ if (a > 5) { return 1; } return 2; }"),
        "vf_post": dict(return_type="int32_t", params=["int32_t a"],
                        code="{ int32_t vf_post_k = a; vf_post_k++; vf_post_k++; return vf_post_k * 3; }"),
        "vf_nest": dict(return_type="uint32_t", params=["uint32_t a"], code="{ return clz32(a) + vf_br(a, 3); }"),
        "vf_nest2": dict(return_type="int64_t", params=["int16_t a", "uint8_t b"],
                         code="{ int64_t vf_nest2_r = vf_post(a) - vf_nest(b); return vf_nest2_r; }"),
        "vf_loc": dict(return_type="int32_t", params=["int32_t a"], code="{ int32_t n = a * 2; n = n + 1; return n; }"),
        "vf_narrow": dict(return_type="int8_t", params=["uint16_t a"], code="{ return a + 1; }"),
        "vf_wide": dict(return_type="uint64_t", params=["int8_t a", "int64_t b"], code="{ return a * b; }"),
        "vf_two": dict(return_type="uint16_t", params=["uint8_t a", "int16_t b"],
                       code="{ uint16_t vf_two_t = a; if (b < 0) { vf_two_t = vf_two_t - b; } return vf_two_t; }"),
        # registers passed BY REFERENCE (const HexOp *): letter operands are pointers already, explicit / alias / N registers are structs
        "vf_setd": dict(return_type="void", params=["HexInsnPktBundle *bundle", "const HexOp *RdV", "int32_t v"], code="{ RdV = v; }"),
        "vf_getx": dict(return_type="int32_t", params=["HexInsnPktBundle *bundle", "const HexOp *RxV"], code="{ return RxV + 1; }"),
        # names with upper-case letters (definition and call site must agree on the C identifier)
        "vf_SatAdd8": dict(return_type="int32_t", params=["int32_t a", "int32_t b"], code="{ if (a + b > 127) { return 127; } else { return a + b; } }"),
        "VF_UPPER": dict(return_type="uint16_t", params=["uint16_t a"], code="{ return vf_SatAdd8(a, 1) + 2; }"),
        # two sub-routines whose names differ only in the case of their letters; the upper-case one keeps a temporary live across
        # its call of the lower-case one (temporaries of different C functions must not share a name)
        "vf_case": dict(return_type="int32_t", params=["int32_t a"],
                        code="{ int32_t vf_case_s = a; int32_t vf_case_r = vf_case_s++; return vf_case_r + vf_case_s; }"),
        "VF_CASE": dict(return_type="int32_t", params=["int32_t b"],
                        code="{ int32_t vf_CASE_o = b; return vf_CASE_o++ + vf_case(b + 10); }"),
        "vf_loop": dict(return_type="uint32_t", params=["uint32_t a"],
                        code="{ uint32_t vf_loop_s = 0; int vf_loop_i; for (vf_loop_i = 0; vf_loop_i < 3; vf_loop_i++) { vf_loop_s = vf_loop_s * 2 + a; } return vf_loop_s; }"),
    })
    return subs


C08_PRE = "int32_t n = RsV; int32_t m = RtV; RyV = n;"
C08_POST = "RyV = RyV * 3 + n; RzV = RzV ^ m;"
C08_CALLS = ["vf_SatAdd8(n, m)", "VF_UPPER(n)", "VF_CASE(n)", "vf_case(m)", "vf_br(n, m)", "vf_early(n)", "vf_post(n)", "vf_nest(n)", "vf_nest2(n, m)", "vf_loc(m)", "vf_narrow(n)",
             "vf_wide(n, m)", "vf_two(n, m)", "vf_loop(m)", "clz32(n)", "clo32(m)", "fbrev(n)", "revbit32(m)",
             "conv_round(n, 2)", "vf_id_int8_t(n)", "vf_conv_int16_t_uint64_t(m)"]


def c08(tier):
    rng = random.Random(seed() * 7919 + 8)
    out = []
    # deterministic part (seed independent)
    for c in C08_CALLS:
        out.append(f"{{ {C08_PRE} RyV = {c}; {C08_POST} }}")
        out.append(f"{{ {C08_PRE} RxxV = {c}; {C08_POST} }}")
        out.append(f"{{ {C08_PRE} int32_t r1 = {c}; int32_t r2 = clz32(m); RyV = r1 - r2; {C08_POST} }}")
        out.append(f"{{ {C08_PRE} if ({c} > 3) {{ RyV = {c}; }} {C08_POST} }}")
        out.append(f"{{ {C08_PRE} RyV = {c} + {c}; {C08_POST} }}")
    # a call nested in the argument list of a plugin macro is still a call of its own statement: its arguments have
    # the values of that moment (the locals are re-assigned just before)
    for c in ("vf_br(n, m)", "vf_post(n)", "clz32(n)", "vf_nest(n)", "vf_wide(n, m)", "vf_narrow(m)"):
        for mac in (f"extract32({c}, 4, 8)", f"deposit32(n, 4, 8, {c})", f"bswap32({c})", f"sextract64({c}, 3, 9)",
                    f"extract64({c}, 0, 33)", f"bswap16({c})", f"deposit64(m, 8, 16, {c})"):
            out.append(f"{{ {C08_PRE} n = n + 3; m = m ^ n; RyV = {mac}; {C08_POST} }}")
            out.append(f"{{ {C08_PRE} n = n + 3; RxxV = {mac} + clz32(n); n = 0; {C08_POST} }}")
    # registers of every kind passed BY REFERENCE (the C reference models only same-name references: these are decided by the sort /
    # operand-kind clauses of the WF engine, which run on every family program)
    for r_ in ["RxV", "R3", "R2", "P1", "R1:0", "C1", "M0", "HEX_REG_ALIAS_LR", "HEX_REG_ALIAS_SP", "NsN", "R3_NEW", "RyV"]:
        out.append(f"{{ RyV = vf_getx(bundle, {r_}); }}")
        out.append(f"{{ vf_setd(bundle, {r_}, RsV + 1); }}")
    # seeded part: sub-routines with an open finding (early return, colliding local) are kept out of it
    ok = [c for c in C08_CALLS if not c.startswith(("vf_early", "vf_loc"))]
    pairs = list(itertools.product(ok, ok))
    if tier != "thorough":
        pairs = rng.sample(pairs, 90)
    for a, b in pairs:
        out.append(f"{{ {C08_PRE} RyV = {a} + {b}; {C08_POST} }}")
    n3 = 300 if tier == "thorough" else 40
    for _ in range(n3):
        cs = [rng.choice(ok) for _ in range(rng.choice([3, 4]))]
        out.append(f"{{ {C08_PRE} RxxV = " + " + ".join(cs) + f"; {C08_POST} }}")
    for a, b in (pairs if tier == "thorough" else pairs[:60]):
        f = a.split("(")[0]
        if a.count(",") == 0:
            out.append(f"{{ {C08_PRE} RyV = {f}({b}); {C08_POST} }}")
    return out


# ------------------------------------------------------------------------------------------ C09
def c09_literals():
    vals = {0, 1}
    for k in (7, 8, 15, 16, 31, 32, 63):
        vals |= {2 ** k - 1, 2 ** k, 2 ** k + 1}
    vals |= {2 ** 64 - 1}
    lits = []
    for v in sorted(vals):
        for spell in (str(v), hex(v)):
            for suf in ("", "U", "u", "LL", "ll", "ULL", "ull"):
                lits.append(spell + suf)
    return lits


def c09(tier):
    out = []
    lits = c09_literals()
    # every literal against an UNSIGNED 64-bit operand / target (widening of the literal's type to an unsigned type)
    for l in lits:
        import re as _re
        m = _re.match(r"^(\d+)(LL|ll)?$", l)
        if m and int(m.group(1)) >= 2 ** 63:
            continue
        out.append(f"{{ uint64_t u = RssV; RddV = u & {l}; }}")
        out.append(f"{{ RddV = (uint64_t){l}; }}")
        out.append(f"{{ uint64_t u = RssV; RddV = (u < {l}); }}")
    for l in lits:
        import re as _re
        m = _re.match(r"^(\d+)(LL|ll)?$", l)
        if m and int(m.group(1)) >= 2 ** 63:
            continue  # a decimal literal without U that does not fit long long has no C11 type
        out.append(f"{{ RddV = {l}; }}")
        out.append(f"{{ RddV = {l} >> 1; }}")
        out.append(f"{{ RddV = -{l}; }}")
        out.append(f"{{ RddV = ~{l}; }}")
        out.append(f"{{ RddV = {l} + RssV; }}")
    small = ["0", "1", "3", "127", "128", "255", "0x7fffffff", "0x80000000", "2147483648", "4294967295", "4294967296",
             "1U", "3U", "0x80000000U", "4294967295U", "1LL", "0x7fffffffffffffffLL", "1ULL", "0xffffffffffffffffULL",
             "5u", "9ll"]
    for a, b in itertools.product(small, small):
        for op in ("+", "-", "*"):
            out.append(f"{{ RddV = {a} {op} {b}; }}")
        for op in ("<", ">", "<=", ">=", "==", "!="):
            out.append(f"{{ RddV = ({a} {op} {b}); }}")
    for a in small:
        for op in ("+", "-", "~", "!"):
            out.append(f"{{ RddV = {op}{a}; }}")
            out.append(f"{{ RddV = {op}{a} < 1U; }}")
            out.append(f"{{ RddV = ({op}{a}) >> 3; }}")
        out.append(f"{{ RddV = -(-{a}); }}")
        out.append(f"{{ RddV = {a} ? RssV : RttV; }}")
        out.append(f"{{ RddV = ({a} == 3) ? RssV : RttV; }}")
    for a, b in itertools.product(["8", "7", "9", "0", "1", "6U", "100LL", "0x10"], ["2", "3", "0", "1", "4U", "7LL"]):
        out.append(f"{{ RddV = {a} / {b}; }}")
        out.append(f"{{ RddV = {a} % {b}; }}")
    for a, b in [("0x7fffffffffffffffLL", "1"), ("9007199254740993LL", "1"), ("0xffffffffffffffffULL", "3"), ("-7", "2"), ("7", "-2"),
                 ("-9007199254740993LL", "1"), ("0x8000000000000000ULL", "2"), ("4611686018427387905LL", "1LL"), ("1", "3"), ("-1", "3"),
                 ("0x7fffffff", "-1"), ("100", "7")]:
        out.append(f"{{ RddV = {a} / {b}; }}")
        out.append(f"{{ RddV = ({a} / {b}) + RssV; }}")
    # dead operands that live code still uses
    pre = "int32_t n = RsV; uint8_t q = RtV;"
    for dead, live in itertools.product(["n", "q", "RtV", "RuV", "clz32(n)", "({ n = n + 1; n; })", "n++", "(n + q)", "siV"],
                                        ["n", "RuV", "7"]):
        out.append(f"{{ {pre} RdV = 1 ? {live} : {dead}; RxV = n + q + RtV; }}")
        out.append(f"{{ {pre} RdV = 0 ? {dead} : {live}; RxV = n + q + RtV; }}")
        out.append(f"{{ {pre} RdV = (2 > 1) ? {live} : {dead}; RxV = n + q + RuV; }}")
        out.append(f"{{ {pre} RdV = (1 == 0 ? {dead} : {live}); RxV = n * 3 + RuV; }}")
    hy = ["clz32(RsV)", "clo32(RtV)", "n++", "({ n = n + 3; n; })", "revbit32(RuV)"]
    for h1, h2, h3 in itertools.product(hy[:3], hy[1:4], hy[2:]):
        if len({h1, h2, h3}) < 3 or sum("n" in h.replace("revbit", "") for h in (h1, h2, h3)) > 1:
            continue
        for c in ("0", "1", "(2 > 3)"):
            out.append(f"{{ int32_t n = RvV; RdV = ({c} ? {h1} : {h2}) + {h3}; RxV = n; }}")
            out.append(f"{{ int32_t n = RvV; RdV = {h3} + ({c} ? {h1} : {h2}); RxV = n; }}")
    # compile-time truth values as operands of && || ! ?: next to run-time operands (folding must not change the operator's table)
    consts = ["(2 > 1)", "(1 > 2)", "1", "0", "5", "(3 == 3)", "(3 != 3)", "(0 < 1U)"]
    dyn = ["(RsV == 7)", "RsV", "(RsV > RtV)", "(!RsV)", "(RsV & 1)"]
    for k, y in itertools.product(consts, dyn):
        for op in ("&&", "||"):
            out.append(f"{{ RddV = {k} {op} {y}; }}")
            out.append(f"{{ RddV = {y} {op} {k}; }}")
            out.append(f"{{ if ({k} {op} {y}) {{ RddV = 1; }} else {{ RddV = 2; }} }}")
        out.append(f"{{ RddV = (!{k}) + {y}; }}")
        out.append(f"{{ RddV = {y} ? {k} : (!{k}); }}")
    for k1, k2 in itertools.product(consts[:5], consts[:5]):
        out.append(f"{{ RddV = ({k1} && {k2}) + ({k1} || {k2}) * 2 + RssV; }}")
    # the same literal spelled twice in one body, in different contexts (a literal object must not be shared and re-typed in place)
    for l in ["0x80000000U", "4294967295U", "1U", "3U", "0xffffffffffffffffULL", "255", "1ULL", "0x7fffffff"]:
        for second in (f"~{l}", f"{l} >> 1", f"(int64_t){l}", f"{l} + RssV", f"!{l}", f"({l} < RssV)", f"-{l}"):
            out.append(f"{{ RddV = {l}; RxxV = {second}; }}")
            out.append(f"{{ RxxV = {second}; RddV = {l}; }}")
    for t in ["int8_t", "uint16_t", "int32_t", "uint64_t", "int", "unsigned int"]:
        out.append(f"{{ RddV = sizeof({t}); }}")
        out.append(f"{{ {t} v = RsV; RddV = sizeof(v); }}")
        out.append(f"{{ {t} v = RsV; RddV = sizeof(v) * 8 - 1; }}")
    out += ["{ RddV = sizeof(RsV); }", "{ RddV = sizeof(RssV); }", "{ RddV = sizeof(PuV); }", "{ RddV = sizeof(RsV + RttV); }",
            "{ RddV = sizeof(1LL); }", "{ RddV = sizeof(1); }", "{ RddV = sizeof(RsV) - 5; }", "{ RddV = (sizeof(RsV) > -1); }"]
    return out


# ------------------------------------------------------------------------------------------ C15
C15_CARRIERS = [
    "{ int32_t n = RsV; RxV = n; @S@ RyV = RyV + n; }",
    "{ int32_t n = RsV; for (i = 0; i < 3; i++) { RxV = RxV + i; @S@ RyV = RyV * 2; } }",
    "{ int32_t n = RsV; if (n > 0) { RxV = 1; @S@ RyV = 2; } else { RyV = 3; } }",
    "{ int32_t n = RsV; for (i = 0; i < 2; i++) { if (RtV & 1) { @S@ } RxV = RxV + 1; } RyV = n; }",
]
C15_STMTS = [
    "break;", "continue;", "goto out;", "out: RxV = 5;", "return;",
    "RxV = 1, RyV = 2;", "n = (RxV = 3, 4);", "RxV = (n++, n);",
    "while (n > 0) { n = n - 1; }", "while (0) { RxV = 9; }", "do { n = n - 1; } while (n > 0);", "do { RxV = 9; } while (0);",
    "switch (n) { case 1: RxV = 1; break; default: RxV = 2; }", "switch (n) { default: RxV = 2; }",
    "foo();", "foo(n);", "RxV = foo(n);", "RxV = foo();", "fBARRIER();", "n = bar(1, 2) + 1;",
    "*p = 3;", "RxV = *p;", "RxV = &n;", "a[0] = n;", "RxV = a[1];", "RxV = a[n] + 1;", "s.f = 1;", "RxV = s.f;", "RxV = p->f;",
    "p->f = n;", "++n;", "--n;", "RxV = ++n;", "RxV = --n + 1;",
    "for (;;) { RxV = 1; }", "for (i = 0; ; i++) { RxV = 1; }", "for (i = 0, j = 0; i < 2; i++) { RxV = j; }",
    "for (i = 0; i < 2; i++, j++) { RxV = j; }", "for (i = 0; i < 3; i += n++) { RxV = RxV + i; i = i + 1; }", "for (i = 0; i < 3; i = i + clz32(n | 0x40000000)) { RxV = RxV + i; }",
    "for (i = 0; i < 3; RxV = i = i + 1) { RyV = RyV + i; }", "RxV = clz32((n, 3));", "RxV = n ? (RyV = 1, 2) : 3;",
    "int q = 1, r = 2;", "int arr[2];", "int *ptr;", "typedef int t;", "static int z = 1;",
    "RxV = (int32_t){n};", "RxV = sizeof(int[2]);", "asm(\"nop\");", "RxV = n ?: 3;", "RxV = __builtin_clz(n);",
    "RxV = RyV = n = 7;", "n = RxV = RyV = RtV;", "n++ + RxV++;", "clz32(n) + clo32(RxV);",
    "n++ + clz32(n) + RxV--;", "RxV = 1; n++ + RxV++; RyV = n;",
    "if (n) break;", "if (n) { continue; }", "{ break; }", "RxV = \"str\";", "RxV = 'c';", "RxV = 1.5;", "RxV = 010;",
    "RxV = 1L;", "RxV = 1UL;", "RxV = n >>> 1;", "RxV = n <=> 1;", "RxV = (n, n);",
    # unknown functions whose names resemble the two names the transformer special-cases (fatal -> nothing, MEM_STORE0 -> NOP)
    "fatal_unless(n);", "nonfatal_log(n);", "xfatal(n);", "fatal2(n);", "FATAL(n);", "RxV = fatal_value(n);", "MEM_STORE0x(n);", "MEM_STORE1(n);",
    "xMEM_STORE0(n);", "mem_store0(n);", "hex_fatal_trap(n);", "fatal(n, n);",
    # names that differ ONLY IN CASE from a function / macro the compiler knows (C identifiers are case sensitive: these are unknown)
    "Get_Npc(n);", "RxV = Get_Npc(n);", "RxV = GET_NPC(pkt);", "store_slot_cancelled(n, n + 1);", "Store_Slot_Cancelled(pkt, n);", "write_reg(n, 3);",
    "write_pred(n, 1);", "Write_Reg(pkt, n, 2);", "RxV = CLZ32(n);", "RxV = Clz32(n);", "RxV = FBREV(n);", "RxV = Extract32(n, 0, 8);",
    "RxV = DEPOSIT32(n, 0, 8, 5);", "RxV = Sextract64(n, 0, 8);", "RxV = CONV_ROUND(n, 2);", "RxV = Mem_Load_u8(n);", "RxV = MEM_LOAD_U8(n);",
    "Mem_Store_u8(n, 4);", "MEM_STORE_U8(n, 4);", "jump(n);", "Jump(n);", "Cancel_Slot;", "RxV = get_NPC(pkt);", "SET_USR_FIELD(bundle, HEX_REG_FIELD_USR_OVF, 1);",
    "RxV = Get_Usr_Field(bundle, HEX_REG_FIELD_USR_OVF);", "Trap(0, 7);", "RxV = BSWAP32(n);",
]


C15_TOPLEVEL = ["{ RxV = 1; } { RyV = 2; }", "RxV = 1; RyV = 2;", "{} { RxV = RsV; }", "RxV = RsV; { RyV = RxV; } RyV = RyV + 3;",
                "{ RxV = RsV; } { RyV = RxV + 1; } { RxV = RyV * 2; }", "{ int32_t n = RsV; RxV = n; } RyV = RtV;",
                "if (RsV) { RxV = 1; } RyV = 2;", "for (i = 0; i < 2; i++) { RxV = RxV + i; } RyV = RxV;", "mem_store_u8(RsV, RtV); RxV = 1;",
                "RxV = clz32(RsV); RyV = clo32(RtV);", "; RxV = 1;", "{ } { }", "{ RxV = 1; } ;", "JUMP(RsV); RxV = 1;", "RxV = 1; { }"]


def c15(tier):
    out = []
    for car in C15_CARRIERS:
        for s_ in C15_STMTS:
            out.append(car.replace("@S@", s_))
    # expression positions
    for e in ["(RxV = 3, 4)", "foo(n)", "foo()", "*p", "a[1]", "s.f", "p->f", "++n", "(n, 3)", "&n"]:
        out.append(f"{{ int32_t n = RsV; RyV = {e} + 1; }}")
        out.append(f"{{ int32_t n = RsV; if ({e}) {{ RyV = 1; }} }}")
        out.append(f"{{ int32_t n = RsV; RyV = clz32({e}); }}")
        out.append(f"{{ int32_t n = RsV; mem_store_u32(RtV, {e}); }}")
        out.append(f"{{ int32_t n = RsV; RyV = (RtV > 0) ? {e} : 2; }}")
        out.append(f"{{ int32_t n = RsV; for (i = 0; i < {e}; i++) {{ RyV = RyV + 1; }} }}")
    # several top-level statements: the body rule is stmt*, every one of them is part of the effect
    out += C15_TOPLEVEL
    return out


# ------------------------------------------------------------------------------------------ C17
C17_BIN = ["*", "+", "-", "<<", ">>", "<", ">", "<=", ">=", "==", "!=", "&", "^", "|", "&&", "||"]


def c17(tier):
    out = []
    d = "uint8_t a = RsV; int16_t b = RtV; uint32_t c = RuV;"
    for o1, o2 in itertools.product(C17_BIN, C17_BIN):
        out.append(f"{{ {d} RddV = a {o1} b {o2} c; }}")
    for o1, o2, o3 in [("+", "*", "-"), ("<<", "+", ">>"), ("&", "==", "|"), ("||", "&&", "|"), ("<", "<<", "+"), ("^", "&", "=="),
                       ("-", "-", "-"), ("*", "+", "*"), (">>", ">>", "<<"), ("==", "<", "!=")]:
        out.append(f"{{ {d} int32_t e = RvV; RddV = a {o1} b {o2} c {o3} e; }}")
    un = ["-", "~", "!"]
    for u, o in itertools.product(un, C17_BIN):
        out.append(f"{{ {d} RddV = a {o} {u}b; }}")
        out.append(f"{{ {d} RddV = {u}a {o} b; }}")
        out.append(f"{{ {d} RddV = {u}a {o} {u}b; }}")
    for u1, u2 in itertools.product(un, un):
        out.append(f"{{ {d} RddV = {u1}{u2}b; }}")
        out.append(f"{{ {d} RddV = {u1} {u2} a + c; }}")
    out += [f"{{ {d} RddV = a & b && c; }}", f"{{ {d} RddV = a && b & c; }}", f"{{ {d} RddV = a & -b; }}", f"{{ {d} RddV = a - -b; }}",
            f"{{ {d} RddV = a - - b; }}", f"{{ {d} RddV = a & ~b & c; }}", f"{{ {d} RddV = a && !b || c; }}",
            f"{{ {d} RddV = a || b && c || a; }}", f"{{ {d} RddV = !a == b; }}", f"{{ {d} RddV = ~a >> b; }}",
            f"{{ {d} RddV = -a * b; }}", f"{{ {d} RddV = a * -b; }}"]
    # cast vs parenthesised expression
    for t in TNAME:
        out.append(f"{{ {d} RddV = ({t})a + b; }}")
        out.append(f"{{ {d} RddV = ({t})-a; }}")
        out.append(f"{{ {d} RddV = ({t})~b >> 2; }}")
        out.append(f"{{ {d} RddV = ({t})(a + b) * c; }}")
        out.append(f"{{ {d} RddV = -({t})b; }}")
        out.append(f"{{ {d} RddV = ({t})a << 12; }}")
        out.append(f"{{ {d} RddV = (a) + ({t})(b) - (c); }}")
        out.append(f"{{ {d} RddV = ({t})({t})b; }}")
    out += [f"{{ {d} RddV = (a) + b; }}", f"{{ {d} RddV = (a) - b; }}", f"{{ {d} RddV = (a) & b; }}", f"{{ {d} RddV = (a) * b; }}",
            f"{{ {d} RddV = (a) - (b) - (c); }}", f"{{ {d} RddV = ((a)) + ((b) * (c)); }}", f"{{ {d} RddV = (a + b) * c; }}",
            f"{{ {d} RddV = a + (b * c); }}", f"{{ {d} RddV = (((a)))+(((((b))))); }}"]
    # ?: nesting and right associativity, assignment right associativity
    out += [f"{{ {d} RddV = a ? b : c ? 1 : 2; }}", f"{{ {d} RddV = a ? b ? 1 : 2 : c; }}", f"{{ {d} RddV = a ? b : c + 1; }}",
            f"{{ {d} RddV = a + 1 ? b : c; }}", f"{{ {d} RddV = a || b ? c : 3; }}", f"{{ {d} RddV = a ? b : c || 3; }}",
            f"{{ {d} RddV = a < b ? a : b; }}", f"{{ {d} RddV = (a ? b : c) ? 1 : 2; }}", f"{{ {d} RddV = a ? (b ? 1 : 2) : (c ? 3 : 4); }}",
            f"{{ {d} RddV = a ? 1 : b ? 2 : c ? 3 : 4; }}", f"{{ {d} RxV = RyV = a + 1; }}", f"{{ {d} int32_t q; RxV = q = RyV = b; }}",
            f"{{ {d} RxV = a; RxV += RyV = 3; }}", f"{{ {d} RxV = a ? b : c; RyV = RxV; }}"]
    # else binding and statement nesting
    out += ["{ if (RsV) if (RtV) RxV = 1; else RxV = 2; }", "{ if (RsV) { if (RtV) RxV = 1; } else RxV = 2; }",
            "{ if (RsV) { if (RtV) RxV = 1; else RxV = 2; } }", "{ if (RsV) if (RtV) RxV = 1; else RxV = 2; else RxV = 3; }",
            "{ if (RsV) RxV = 1; else if (RtV) RxV = 2; else RxV = 3; }", "{ if (RsV) for (i = 0; i < 2; i++) if (RtV) RxV = RxV + 1; else RyV = RyV + 1; }",
            "{ for (i = 0; i < 2; i++) if (RsV) RxV = RxV + 1; else RyV = RyV + 1; RzV = i; }",
            "{ for (i = 0; i < 2; i++) for (j = 0; j < 2; j++) RxV = RxV * 3 + i + j; RyV = RxV; }",
            "{ if (RsV) ; else RxV = 1; }", "{ if (RsV) {} else RxV = 1; RyV = 2; }", "{ if (RsV) RxV = 1; RyV = 2; }",
            "{ { RxV = 1; } { RyV = 2; } }", "{ {{ RxV = 1; }} RyV = RxV; }", "{ RxV = 1; { RyV = RxV; { RzV = RyV; } } }",
            "{ RxV = ({ RyV = 3; RyV + 1; }); }", "{ RxV = ({ int32_t q = RsV; q * 2; }) + ({ int32_t r = RtV; r * 3; }); }",
            "{ { RyV = 3; RyV = RyV + 1; } RxV = RyV; }", "{ RxV = ({ RyV = 3; RyV; }); { RzV = RxV; } }"]
    # token classification: register / .new / explicit / alias / immediate / identifier look-alikes
    look = ["RsVx", "siVal", "P4", "R32", "RsW", "Rs", "sV", "RssVV", "xRsV", "HEX_REG_ALIAS", "HEX_REG_ALIAS_", "riv", "RIV",
            "R0x", "P0_NEWS", "NsNx", "EAx", "ii", "RsV_", "_RsV", "MuVV", "CsVx", "uiV2", "iV",
            "s1", "p0", "c00", "r3", "m0", "g1", "r1_0", "rsV", "hex_reg_alias_sp", "p3_new", "jump", "MEM_LOAD", "siv", "Rsv"]
    # identifiers that START with a keyword or type name are plain identifiers (a keyword is a whole word)
    look += ["returned", "intx", "unsignedx", "int32_tx", "uint8_ty", "constant", "autox", "staticv", "signedv", "voidx", "return_", "iffy", "forx",
             "dowork", "elsewhere", "whilex", "sizeofx", "gotox", "breaker", "continued", "switcher", "caseb", "defaultx", "structx", "longer", "shorty",
             "floaty", "doubled", "registered", "externx", "enumx", "unionx", "charx", "inlinex", "volatilex", "typedefx", "restricted", "size4u_tx",
             "JUMPx", "mem_loadx", "cancel_slotx", "nopx", "ifx1", "do_it", "int_", "u"]
    for l in look:
        out.append(f"{{ int32_t {l} = RtV; RxV = {l} + 1; }}")
        out.append(f"{{ RxV = {l}; }}")
        out.append(f"{{ int32_t {l} = RtV; {l} = {l} + 1; RxV = {l}; }}")       # the identifier at the START of a statement
    # register-shaped identifiers with two DIFFERENT access letters are plain identifiers (pairs repeat ONE letter)
    lets = "stuvdexy"
    for cls in "RPCMNV":
        for a_, b_ in itertools.permutations(lets, 2):
            if (ord(a_) * 7 + ord(b_) + ord(cls)) % (3 if cls == "R" else 11) == 0:
                for suf in "VN":
                    out.append(f"{{ int32_t {cls}{a_}{b_}{suf} = RwV; RzV = RzV + {cls}{a_}{b_}{suf}; }}")
    out += ["{ RxV = RsV+RtV; }", "{ RxV=RsV-RtV; }", "{ RxV = RsV+siV; }", "{ RxV = RsV +uiV-RtV; }", "{ RxV = RsN+PtV; }",
            "{ RxV = P0+P1; }", "{ RxV = HEX_REG_ALIAS_SP+4; }", "{ RxV=RsV&RtV; }", "{ RxV=RsV&&RtV; }", "{ RxV=RsV&~RtV; }",
            "{ RxV=RsV<<RtV; }", "{ RxV=RsV<RtV; }", "{ RxV=RsV<=RtV; }", "{ RxV=RsV<<1<=RtV; }", "{ RxV=RsV>>1>=RtV; }",
            "{ RxV=RsV>RtV>>1; }", "{ RxV = RsV --- RtV; }" if False else "{ RxV = RsV - - - RtV; }", "{ RxV = RsV++ + RtV; }",
            "{ RxV = RsV+ +RtV; }", "{ RxV = 0x10+RsV; }", "{ RxV = 0x1f&RsV; }", "{ RxV = 10U+RsV; }", "{ RxV = 1LL<<RsV; }"]
    # postfix ++ / -- directly followed by every binary operator (the lexer must take '++' / '--' as one token: maximal munch)
    for op in C17_BIN:
        out.append(f"{{ {d} int32_t e = RvV; RddV = e++ {op} b; RxV = e; }}")
        out.append(f"{{ {d} int32_t e = RvV; RddV = e-- {op} b; RxV = e; }}")
    # every binary operator without blanks between operands of every token kind (a terminal must not swallow its neighbours)
    for op in C17_BIN:
        for l, r in [("1", "RsV"), ("RsV", "1"), ("RsV", "RtV"), ("3", "clz32(RtV)"), ("(RsV)", "(RtV)"), ("siV", "RsV"), ("a", "b"), ("0x1f", "b"),
                     ("7U", "a"), ("a", "1LL")]:
            out.append(f"{{ {d} RddV = {l}{op}{r}; }}")
    return out


# ------------------------------------------------------------------------------------------ mixed
MIX_OPERANDS = ["siV", "SiV", "uiV", "UiV", "riV", "miV", "niV", "PyV", "RwN", "PyN", "NwN", "P0", "P3", "P1_NEW", "R3", "R3:2", "R3_NEW", "M1",
                "HEX_REG_ALIAS_SP", "HEX_REG_ALIAS_LR", "HEX_REG_ALIAS_FP", "HEX_REG_ALIAS_GP", "HEX_REG_ALIAS_USR", "HEX_REG_ALIAS_UTIMER",
                "HEX_REG_ALIAS_LC0", "HEX_REG_ALIAS_SA1", "HEX_REG_ALIAS_LR_NEW", "RwV", "RxV"]
MIX_DESTS = ["PeV", "HEX_REG_ALIAS_LR", "HEX_REG_ALIAS_SP", "HEX_REG_ALIAS_USR", "HEX_REG_ALIAS_UPCYCLE", "R2", "R13", "P2", "M0", "JUMP"]
MIX_REGS32 = ["RwV", "RxV", "siV", "UiV", "PyV"]  # letters s,t,u,v belong to the locals (single or pair)


class Mixed:
    """Typed random programs that combine the constructs of all families in one body: locals of all eight types,
    conversions, every operator class, branches, bounded loops, memory, calls, macros, postfix operators and
    statement-expressions at statement level.  Constructs with an OPEN finding are kept out (value-producing side effects behind
    && || ?:, constant-only subtrees, signed division, chained assignment, early return), so that a violation reported on a
    mixed program is a new one."""

    def __init__(self, rng, stmt_expr=True, calls=(), operands=False):
        self.rng = rng
        self.operands = operands  # C07: leaves and destinations of every operand kind
        self.calls = list(calls)  # (name, arity) of sub-routines registered through the public API
        self.stmt_expr = stmt_expr  # F20 (statement of a statement-expression rendered twice) is an open C12/C15 finding

    def expr(self, depth, vars_):
        rng = self.rng
        if depth == 0 or rng.random() < 0.18:
            if self.operands and rng.random() < 0.5:
                return rng.choice(MIX_OPERANDS)
            return rng.choice(vars_ + (MIX_REGS32 if rng.random() < 0.3 else []))
        r = rng.random()
        sub = lambda: self.expr(depth - 1, vars_)  # noqa
        if r < 0.10:
            return f"({rng.choice(['~', '-', '!'])}{sub()})"
        if r < 0.24:
            return f"(({rng.choice(TNAME)}){sub()})"
        if r < 0.32:
            return f"(({sub()} {rng.choice(CMP)} {sub()}) ? {sub()} : {sub()})"
        if r < 0.40:
            return f"({sub()} {rng.choice(LOGIC)} {sub()})"
        if r < 0.52:
            cnt = self.count()
            return f"({sub()} {rng.choice(SHIFT)} {cnt})"
        if r < 0.62:
            return f"({sub()} {rng.choice(CMP)} {sub()})"
        if r < 0.70:
            return f"({sub()} * {rng.choice(['3', '5', '-7', '0x11', '2U', '9LL'])})"
        op = rng.choice(["+", "-", "&", "|", "^"])
        if rng.random() < 0.25:
            return f"({sub()} {op} {rng.choice(['1', '0x7f', '255', '0x10', '100U', '0xffffLL', '65535', '-1'])})"
        return f"({sub()} {op} {sub()})"

    def count(self, mask=31):
        """Shift counts of every type class (the signedness / width of the COUNT must not influence the result type)."""
        rng = self.rng
        v = rng.choice(self.names)
        return rng.choice(["1", "3", "7", "8", "15", "31" if mask == 31 else "5", "3U", "7U", "1ULL", "2LL", f"({v} & 7)", f"({v} & {mask})",
                           f"((uint32_t){v} & 7)", f"((uint64_t){v} & {mask})", f"((int8_t){v} & 7)", "(UiV & 7)", "(uiV & 3)"])

    def stmt(self, depth, vars_, loopv):
        rng = self.rng
        r = rng.random()
        v = rng.choice(vars_)
        e = lambda d=2: self.expr(rng.choice([1, d]), vars_)  # noqa
        if self.operands and r < 0.22:
            d = rng.choice(MIX_DESTS)
            if d == "JUMP":
                return f"JUMP({e()});"
            return f"{d} = {e(3)};" + (f" {v} = {d};" if rng.random() < 0.3 and not d.startswith(("ReV", "PeV")) else "")
        if depth == 0 or r < 0.30:
            return f"{v} = {e(3)};"
        if r < 0.42:
            op = rng.choice(['+=', '-=', '*=', '<<=', '>>=', '&=', '^=', '|='])
            if op in ("<<=", ">>="):
                return f"{v} {op} {self.count(7)};"
            return f"{v} {op} {e() if rng.random() < 0.7 else rng.choice(['1', '3', '5'])};"
        if r < 0.52:
            body = self.block(depth - 1, vars_, loopv)
            if rng.random() < 0.5:
                return f"if ({e()}) {{ {body} }}"
            return f"if ({e()}) {{ {body} }} else {{ {self.block(depth - 1, vars_, loopv)} }}"
        if r < 0.58 and loopv:
            lv = loopv[0]
            body = self.block(depth - 1, vars_, loopv[1:])
            k = rng.choice(['1', '2', '3'])
            head = rng.choice([f"{lv} = 0; {lv} < {k}; {lv}++", f"{lv} = 0; {lv} < {k}; {lv}++", f"{lv} = 0; {lv} < {k}; {lv} = {lv} + 1",
                               f"{lv} = 0; {lv} < {k}; {lv} += 1", f"{lv} = {k}; {lv} > 0; {lv}--", f"{lv} = 1; {lv} <= {k}; {lv}++",
                               f"{lv} = 0; {lv} != {k}; {lv}++"])
            return f"for ({head}) {{ {body} }}"
        if r < 0.66:
            w = rng.choice(["8", "16", "32", "64"])
            return f"EA = RwV + {rng.choice(['0', '1', '4', '8'])}; mem_store_u{w}(EA, {e()});"
        if r < 0.72:
            w = rng.choice(["u8", "s8", "u16", "s16", "u32", "s32", "u64", "s64"])
            return f"EA = RxV + {rng.choice(['0', '2', '4'])}; {v} = mem_load_{w}(EA);"
        if r < 0.80:
            h = rng.choice([f"clz32({e()})", f"clo32({e()})", f"revbit32({e()})", f"fbrev({e()})", f"conv_round({e()}, 2)",
                            f"extract32({e()}, 3, 9)", f"sextract64({e()}, 2, 13)", f"deposit32({e()}, 4, 8, {e()})", f"bswap32({e()})",
                            f"extract64({e()}, 5, 40)"])
            if rng.random() < 0.25:
                # a call nested in a macro argument / in another call's argument
                inner = rng.choice([f"clz32({e()})", f"revbit32({e()})"] + [f"{n_}({', '.join(e() for _ in range(a_))})" for n_, a_ in self.calls])
                h = rng.choice([f"extract32({inner}, 2, 7)", f"deposit32({e()}, 4, 8, {inner})", f"bswap32({inner})", f"sextract64({inner}, 1, 12)",
                                f"clo32({inner})", f"fbrev({inner})"])
            if self.calls and rng.random() < 0.7:
                name, ar = rng.choice(self.calls)
                h = f"{name}({', '.join(e() for _ in range(ar))})"
                if rng.random() < 0.3:
                    n2, a2 = rng.choice(self.calls)
                    h = f"{h} {rng.choice(['+', '-', '^'])} {n2}({', '.join(e() for _ in range(a2))})"
            return f"{v} = {h};" if rng.random() < 0.6 else f"{v} = {h} + {rng.choice(vars_)};"
        if r < 0.87:
            w = rng.choice(vars_)
            return rng.choice([f"{w}++;", f"{w}--;", f"{v} = {w}++;", f"{v} = {w}--;"]) if w != v else f"{w}++;"
        if r < 0.92 and self.stmt_expr:
            w = rng.choice(vars_)
            return f"{v} = ({{ {w} = {e()}; {w} + 1; }});" if w != v else f"{v} = {e()};"
        if r < 0.96:
            return f"PeV = {e()};"
        return f"{{ {self.block(depth - 1, vars_, loopv)} }}"

    def block(self, depth, vars_, loopv):
        return " ".join(self.stmt(depth, vars_, loopv) for _ in range(self.rng.choice([1, 2, 2, 3])))

    def program(self):
        rng = self.rng
        names = ["a", "b", "c", "d"][:rng.choice([2, 3, 3, 4])]
        self.names = names
        ds = []
        for n_, l in zip(names, "stuv"):
            t = rng.choice(TYPES)
            ds.append(decl(t[0], t[1], n_, l))
        body = self.block(rng.choice([1, 2, 2, 3]), names, ["i", "j"])
        obs = "RddV = " + " + ".join(f"((int64_t){n_} * {k})" for n_, k in zip(names, (1, 3, 5, 7))) + ";"
        return f"{{ {' '.join(ds)} int i; int j; {body} {obs} }}"


def mixed(tier, n=None, salt=77, stmt_expr=True, calls=(), operands=False):
    rng = random.Random(seed() * 7919 + salt)
    g = Mixed(rng, stmt_expr, calls, operands)
    n = n if n is not None else (3000 if tier == "thorough" else 150)
    out = []
    while len(out) < n:
        p = g.program()
        if len(p) <= 420:
            out.append(p)
    return out
