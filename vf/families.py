"""Bounded program families (generated from explicit grammars; exhaustive up to the stated depth,
seeded-random beyond).  Every family avoids using one operand letter with two widths."""
import itertools
import random
from .framework import seed

TYPES = [("uint8_t", 8, False), ("int8_t", 8, True), ("uint16_t", 16, False), ("int16_t", 16, True),
         ("uint32_t", 32, False), ("int32_t", 32, True), ("uint64_t", 64, False), ("int64_t", 64, True)]


def wf_family(prop, tier):
    return []


def layout_family(tier):
    return []
