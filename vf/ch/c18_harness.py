"""CrossHair harness for C18: the real Parser.parse / parse_single glue under environment stubs.

Stubs (each is part of the claim): multiprocessing.Pool -> object whose imap delivers f(arg) for every submitted arg in
submission order (exactly imap's documented contract; scheduling and pool size are discharged BY this contract, not explored);
lark.Lark -> parser that raises an arbitrary exception class for behaviours marked broken and returns a tree token otherwise;
tqdm -> identity; Conf.get_path and open -> an in-memory grammar text (no file access).
Symbolic: number of entries (<= 3, names from a concrete pool because CrossHair realises dict keys), parts per entry (1..2),
which parts are broken, which exception class.
"""
import io
import rzilcompiler.Parser as P

NAMES = ["A2_x", "B_y", "C9_z"]


class _E1(Exception):
    pass


class UnexpectedCharacters(Exception):
    pass


EXC = [ValueError, _E1, UnexpectedCharacters, KeyError]


def _badtag(x):
    # if-chain instead of list indexing: CrossHair forks on comparisons but realises symbolic list indices
    if x == 0:
        return "bad0"
    if x == 1:
        return "bad1"
    if x == 2:
        return "bad2"
    return "bad3"


def _excname(x):
    if x == 0:
        return "ValueError"
    if x == 1:
        return "_E1"
    if x == 2:
        return "UnexpectedCharacters"
    return "KeyError"


class _StubLark:
    def __init__(self, grammar, start=None, parser=None):
        self.exc = None

    def parse(self, text):
        if text.startswith("bad"):
            raise EXC[int(text[3])]("broken behaviour")
        return ("tree", text)


class _StubPool:
    def __init__(self, *a, **k):
        pass

    def __enter__(self):
        return self

    def __exit__(self, *a):
        return False

    def imap(self, f, args):
        return [f(a) for a in args]


class _Tqdm:
    """Stands for tqdm in both of its usages: wrapping an iterable, or as a manually updated bar."""
    def __init__(self, iterable=None, *a, **k):
        self.iterable = iterable

    def __iter__(self):
        return iter(self.iterable if self.iterable is not None else [])

    def __enter__(self):
        return self

    def __exit__(self, *a):
        return False

    def update(self, *a, **k):
        pass

    def close(self):
        pass

    def set_description(self, *a, **k):
        pass


class _Path:
    def __init__(self, p):
        self.p = p


def _run(n, two, broken, exc):
    behaviors = {}
    for i in range(n):
        parts = []
        for j in range(2 if two[i] else 1):
            # the two parts of an entry fail with DIFFERENT exception classes: the reported error is the first failing part's
            tag = _badtag((exc[i] + j) % 4) if broken[2 * i + j] else "ok"
            parts.append(tag + ":" + NAMES[i] + ":" + "01"[j])
        behaviors[NAMES[i]] = parts
    saved = (P.Lark, P.Pool, P.tqdm, P.Conf.get_path)
    P.Lark, P.Pool = _StubLark, _StubPool
    P.tqdm = _Tqdm
    P.Conf.get_path = staticmethod(lambda *a, **k: "/dev/null")
    P.open = lambda *a, **k: io.StringIO("start: fbody\n")  # module-level name shadows the builtin: no file access
    try:
        res = P.Parser.parse(behaviors)
        seq = {}
        for name, beh in behaviors.items():
            seq.update(P.parse_single(P.InsnParsingBundle("", name, beh)))
    finally:
        P.Lark, P.Pool, P.tqdm = saved[0], saved[1], saved[2]
        P.Conf.get_path = staticmethod(saved[3])
        del P.open
    return behaviors, res, seq


def _entry_ok(name, parts, e, exc_idx):
    bad = [p for p in parts if p.startswith("bad")]
    if e.name != name or list(e.behaviors) != list(parts):
        return False
    if bad:
        return e.asts == [] and e.exception is not None and e.exception.name == _excname(int(bad[0][3]))
    return e.exception is None and e.asts == [("tree", p) for p in parts]


def _check(n, two, broken, exc):
    behaviors, res, seq = _run(n, two, broken, exc)
    if set(res.keys()) != set(behaviors.keys()) or len(res) != n:
        return False
    for i, (name, parts) in enumerate(behaviors.items()):
        e, s = res[name], seq[name]
        if not _entry_ok(name, parts, e, exc[i]):
            return False
        if e.asts != s.asts or (e.exception is None) != (s.exception is None):
            return False
        if e.exception is not None and e.exception.name != s.exception.name:
            return False
    return True


def one_entry(t0: bool, b0: bool, b1: bool, x0: int) -> bool:
    """
    pre: 0 <= x0 < 4
    post: __return__
    """
    return _check(1, [t0, False, False], [b0, b1, False, False, False, False], [x0, 0, 0])


def no_entry(x0: int) -> bool:
    """
    pre: 0 <= x0 < 4
    post: __return__
    """
    return _check(0, [False, False, False], [False] * 6, [x0, 0, 0])


def two_entries(t0: bool, t1: bool, b0: bool, b1: bool, b2: bool, b3: bool, x0: int, x1: int) -> bool:
    """
    pre: 0 <= x0 < 4 and 0 <= x1 < 4
    post: __return__
    """
    return _check(2, [t0, t1, False], [b0, b1, b2, b3, False, False], [x0, x1, 0])


def three_entries_thorough(t0: bool, t1: bool, t2: bool, b0: bool, b1: bool, b2: bool, b3: bool, b4: bool, b5: bool,
                           x0: int, x1: int, x2: int) -> bool:
    """
    pre: 0 <= x0 < 2 and 0 <= x1 < 2 and 0 <= x2 < 2
    post: __return__
    """
    return _check(3, [t0, t1, t2], [b0, b1, b2, b3, b4, b5], [x0, x1, x2])


def vacuity_twin(n: int, t0: bool, b0: bool, b1: bool, x0: int) -> bool:
    """
    pre: 1 <= n <= 2 and 0 <= x0 < 4
    post: __return__
    """
    _run(n, [t0, False, False], [b0, b1, False, False, False, False], [x0, 0, 0])
    return False
