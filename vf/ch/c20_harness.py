"""CrossHair harness for C20: the real PreprocessorHexagon.patch_macros under a stubbed patch file.

Macro lines and patch lines are drawn from a small name pool by SYMBOLIC choice (if-chains, so CrossHair forks instead of
realising), including duplicates, user-only patches and a patch defined twice; the patch file is supplied through a
module-level `open` stub (no file access).  Post: every patched name appears exactly once with the patch text, at the position
of its first original, no original definition of a patched macro survives, user-only patches are added, unpatched lines are
kept in order (duplicates included).
"""
import io
import rzilcompiler.Preprocessor.Hexagon.PreprocessorHexagon as M

POOL = ["fA", "fB", "fC_1"]
USER_ONLY = "fUSER"


def _name(i):
    if i == 0:
        return POOL[0]
    if i == 1:
        return POOL[1]
    return POOL[2]


def _pname(i):
    if i == 3:
        return USER_ONLY
    return _name(i)


def _run(nm, m0, m1, m2, np_, p0, p1, cont):
    macros = []
    idx = [m0, m1, m2]
    for k in range(nm):
        macros.append(f"#define {_name(idx[k])}(x) orig{k}(x)")
    plines = ["// patches", ""]
    pidx = [p0, p1]
    for k in range(np_):
        if cont and k == 0:
            plines.append(f"#define {_pname(pidx[k])}(x) \\")
            plines.append(f"    patch{k}(x)")
        else:
            plines.append(f"#define {_pname(pidx[k])}(x) patch{k}(x)")
    text = "\n".join(plines) + "\n"
    saved = M.Conf.get_path
    M.Conf.get_path = staticmethod(lambda *a, **k: "/dev/null")
    M.open = lambda *a, **k: io.StringIO(text)
    try:
        res = M.PreprocessorHexagon("/dev/null").patch_macros(list(macros))
    finally:
        M.Conf.get_path = staticmethod(saved)
        del M.open
    return macros, [(_pname(pidx[k]), k) for k in range(np_)], res


def _line_name(line):
    return line.split()[1].split("(")[0]


def _ok(macros, patches, res):
    last = {}
    for n, k in patches:
        last[n] = k  # a patch defined twice: the later definition wins
    names_m = [_line_name(m) for m in macros]
    # (1) every patched name exactly once, with the patch text
    for n, k in last.items():
        hits = [r for r in res if _line_name(r) == n]
        if len(hits) != 1 or f"patch{k}(x)" not in hits[0] or "orig" in hits[0]:
            return False
    # (2)+(4) walking the result without user-only additions reproduces the macro list with each patched name collapsed to
    # its first occurrence
    expect = []
    seen = set()
    for m, n in zip(macros, names_m):
        if n in last:
            if n not in seen:
                seen.add(n)
                expect.append(("patch", n))
        else:
            expect.append(("orig", m))
    got = []
    for r in res:
        n = _line_name(r)
        if n in last:
            if n in names_m:
                got.append(("patch", n))
        else:
            got.append(("orig", r))
    if got != expect:
        return False
    # (3) user-only patches (no original) are present
    for n in last:
        if n not in names_m and not any(_line_name(r) == n for r in res):
            return False
    return len(res) == len(expect) + len([n for n in last if n not in names_m])


def patches_replace_all_originals(nm: int, m0: int, m1: int, m2: int, np_: int, p0: int, p1: int, cont: bool) -> bool:
    """
    pre: 0 <= nm <= 3 and 0 <= m0 <= 2 and 0 <= m1 <= 2 and 0 <= m2 <= 2
    pre: 0 <= np_ <= 2 and 0 <= p0 <= 3 and 0 <= p1 <= 3
    post: __return__
    """
    return _ok(*_run(nm, m0, m1, m2, np_, p0, p1, cont))


def vacuity_twin(nm: int, m0: int, np_: int, p0: int) -> bool:
    """
    pre: 1 <= nm <= 2 and 0 <= m0 <= 2 and 0 <= np_ <= 1 and 0 <= p0 <= 3
    post: __return__
    """
    _run(nm, m0, 0, 1, np_, p0, 0, False)
    return False
