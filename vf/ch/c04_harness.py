"""CrossHair harness for C04: the real c11_cast / promoted_type / ValueType.__eq__ on symbolic (signed, width).

Each function below carries the property as a PEP-316 postcondition; CrossHair searches all paths of the real
functions (z3 per path) for a counterexample.  Widths range over 1..2048 as symbolic integers.
"""
from rzilcompiler.Transformer.ValueType import ValueType, VTGroup, c11_cast, promoted_type


def _c11(sa: bool, wa: int, sb: bool, wb: int):
    """C11 6.3.1.8 with rank = bit width (no integer promotion here; that is promoted_type's job)."""
    if sa == sb:
        return (sa, max(wa, wb))
    (ws, wu) = (wa, wb) if sa else (wb, wa)
    if wu >= ws:
        return (False, wu)
    return (True, ws)


def common_type_matches_c11(sa: bool, wa: int, sb: bool, wb: int) -> bool:
    """
    pre: 1 <= wa <= 2048 and 1 <= wb <= 2048
    post: __return__
    """
    a = ValueType(sa, wa)
    b = ValueType(sb, wb)
    ra, rb = c11_cast(a, b)
    want = _c11(sa, wa, sb, wb)
    return (ra.signed, ra.bit_width) == want and (rb.signed, rb.bit_width) == want and ra == rb


def common_type_of_types_modified_after_construction(sa: bool, wa: int, sb: bool, wb: int, fa: bool, fb: bool, xa: bool, xb: bool, sign_last: bool) -> bool:
    """
    pre: 1 <= wa <= 2048 and 1 <= wb <= 2048
    post: __return__
    """
    # the transformer builds types and THEN sets attributes (`unsigned int`: t.signed = False; folded `-<unsigned literal>`:
    # t.signed = True; widths of narrowed destinations): the result depends on the attribute values at call time only
    a = ValueType(fa, 32 if xa else wa)
    b = ValueType(fb, 32 if xb else wb)
    if sign_last:
        a.bit_width = wa
        b.bit_width = wb
        a.signed = sa
        b.signed = sb
    else:
        a.signed = sa
        b.signed = sb
        a.bit_width = wa
        b.bit_width = wb
    ra, rb = c11_cast(a, b)
    want = _c11(sa, wa, sb, wb)
    pa = promoted_type(a)
    return (ra.signed, ra.bit_width) == want and (rb.signed, rb.bit_width) == want and \
        (pa.signed, pa.bit_width) == ((True, 32) if wa < 32 else (sa, wa))


def common_type_symmetric(sa: bool, wa: int, sb: bool, wb: int) -> bool:
    """
    pre: 1 <= wa <= 2048 and 1 <= wb <= 2048
    post: __return__
    """
    ra, rb = c11_cast(ValueType(sa, wa), ValueType(sb, wb))
    qb, qa = c11_cast(ValueType(sb, wb), ValueType(sa, wa))
    return (ra.signed, ra.bit_width, rb.signed, rb.bit_width) == (qa.signed, qa.bit_width, qb.signed, qb.bit_width)


def common_type_keeps_arguments(sa: bool, wa: int, sb: bool, wb: int, ga: int, gb: int) -> bool:
    """
    pre: 1 <= wa <= 2048 and 1 <= wb <= 2048 and 0 <= ga < 4 and 0 <= gb < 4
    post: __return__
    """
    groups = [VTGroup.PURE, VTGroup.PURE | VTGroup.BOOL, VTGroup.PURE | VTGroup.CONST, VTGroup.PURE | VTGroup.HYBRID_LVAR]
    a = ValueType(sa, wa, groups[ga])
    b = ValueType(sb, wb, groups[gb])
    ra, rb = c11_cast(a, b)
    unchanged = (a.signed == sa and a.bit_width == wa and a.group == groups[ga]
                 and b.signed == sb and b.bit_width == wb and b.group == groups[gb])
    # a result that differs from its argument must be a different object (no aliasing of a modified type)
    no_alias = (ra is a) == ((ra.signed, ra.bit_width) == (sa, wa) and ra is a) and \
               ((ra is not a) or (ra.signed == sa and ra.bit_width == wa)) and \
               ((rb is not b) or (rb.signed == sb and rb.bit_width == wb))
    return unchanged and no_alias


def common_type_deterministic(sa: bool, wa: int, sb: bool, wb: int) -> bool:
    """
    pre: 1 <= wa <= 2048 and 1 <= wb <= 2048
    post: __return__
    """
    a, b = ValueType(sa, wa), ValueType(sb, wb)
    r1 = c11_cast(a, b)
    r2 = c11_cast(a, b)
    return (r1[0].signed, r1[0].bit_width, r1[1].signed, r1[1].bit_width) == \
           (r2[0].signed, r2[0].bit_width, r2[1].signed, r2[1].bit_width)


def results_are_not_shared_state(sa: bool, wa: int, sb: bool, wb: int) -> bool:
    """
    pre: 1 <= wa <= 2048 and 1 <= wb <= 2048
    post: __return__
    """
    # callers do modify the types they get back (e.g. the constant folder sets `.signed` on a common type): a result that
    # is not one of the arguments must be a fresh object, so modifying it cannot change what a later call returns
    a, b = ValueType(sa, wa), ValueType(sb, wb)
    r = c11_cast(a, b)
    if r[0] is not a:
        r[0].signed = not r[0].signed
        r[0].bit_width = r[0].bit_width + 8
    if r[1] is not b:
        r[1].signed = not r[1].signed
        r[1].bit_width = r[1].bit_width + 8
    q = c11_cast(ValueType(sa, wa), ValueType(sb, wb))
    want = _c11(sa, wa, sb, wb)
    p1 = promoted_type(ValueType(sa, wa))
    if p1.bit_width != wa or wa < 32:
        p1.signed = not p1.signed
    p2 = promoted_type(ValueType(sa, wa))
    pw = (True, 32) if wa < 32 else (sa, wa)
    return (q[0].signed, q[0].bit_width) == want and (q[1].signed, q[1].bit_width) == want and (p2.signed, p2.bit_width) == pw


def promotion_matches_c11(s: bool, w: int, g: int) -> bool:
    """
    pre: 1 <= w <= 2048 and 0 <= g < 4
    post: __return__
    """
    groups = [VTGroup.PURE, VTGroup.PURE | VTGroup.BOOL, VTGroup.PURE | VTGroup.CONST, VTGroup.PURE | VTGroup.HYBRID_LVAR]
    t = ValueType(s, w, groups[g])
    p = promoted_type(t)
    arg_ok = t.signed == s and t.bit_width == w and t.group == groups[g]
    if w < 32:
        return arg_ok and p.signed is True and p.bit_width == 32
    return arg_ok and p.signed == s and p.bit_width == w and p.group == groups[g]


def equality_is_width_and_sign(sa: bool, wa: int, sb: bool, wb: int) -> bool:
    """
    pre: 1 <= wa <= 2048 and 1 <= wb <= 2048
    post: __return__
    """
    return (ValueType(sa, wa) == ValueType(sb, wb)) == (sa == sb and wa == wb)


def vacuity_twin(sa: bool, wa: int, sb: bool, wb: int) -> bool:
    """
    pre: 1 <= wa <= 2048 and 1 <= wb <= 2048
    post: __return__
    """
    ra, rb = c11_cast(ValueType(sa, wa), ValueType(sb, wb))
    return False
