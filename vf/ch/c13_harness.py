"""CrossHair harness for C13/C14(a): one inductive step of the attribute state machine from an ARBITRARY pre-state.

Pre-state: arbitrary values of the six flags and an arbitrary predicate list, on the instance and on the class
(where earlier instructions / other transformer instances would have left them); then reset_flags() as
Compiler.transform_insn does before every part; then a symbolic sequence of <= 4 set_token_meta_data events; then
get_meta().  Post: the reported list is exactly what the events of THIS part imply.  Holding from an arbitrary
pre-state, it covers compilation histories of any length.
"""
from typing import List
from rzilcompiler.HexagonExtensions import HexagonTransformerExtension

# token vocabulary of RZILTransformer's set_token_meta_data calls (attribute-relevant ones first)
TOKENS = ["selection_stmt", "new_reg", "explicit_reg", "mem_store", "mem_load", "jump", "pred_write", "reg",
          "assignment_expr", "conditional_expr"]
ATTR = "HEX_IL_INSN_ATTR_"
NMAX = 3


def _tok(t):
    # if-chain instead of TOKENS[t]: CrossHair forks on comparisons but realises symbolic list indices one value at a time
    for i in range(len(TOKENS) - 1):
        if t == i:
            return TOKENS[i]
    return TOKENS[-1]


def _spec(events):
    cond = new = mw = mr = br = wp = False
    preds = []
    for tok, flag, num in events:
        if tok == "selection_stmt":
            cond = True
        elif tok == "new_reg" or (tok == "explicit_reg" and flag):
            new = True
        elif tok == "mem_store":
            mw = True
        elif tok == "mem_load":
            mr = True
        elif tok == "jump":
            br = True
        elif tok == "pred_write":
            wp = True
            if 0 <= num <= 3 and num not in preds:
                preds.append(num)
    out = set()
    if cond:
        out.add(ATTR + "COND")
    if new:
        out.add(ATTR + "NEW")
    if mw:
        out.add(ATTR + "MEM_WRITE")
    if mr:
        out.add(ATTR + "MEM_READ")
    if br:
        out.add(ATTR + "BRANCH")
    if wp:
        out.add(ATTR + "WPRED")
        for p in preds:
            out.add(f"{ATTR}WRITE_P{p}")
    if not out:
        out.add(ATTR + "NONE")
    return out


def _run(pre_flags, pre_inst, pre_cls, events_in):
    ext = HexagonTransformerExtension(None)
    # arbitrary pre-state left behind by whatever was compiled before
    (ext.uses_new, ext.writes_mem, ext.reads_mem, ext.is_conditional, ext.branches, ext.writes_predicate) = pre_flags
    saved_cls = HexagonTransformerExtension.__dict__.get("preds_written", None)
    HexagonTransformerExtension.preds_written = [pre_cls] if pre_cls >= 0 else []
    try:
        if pre_inst >= 0:
            ext.preds_written = [pre_inst]
        ext.reset_flags()
        events = []
        for (t, flag, num) in events_in:
            tok = _tok(t)
            if tok == "explicit_reg":
                ext.set_token_meta_data(tok, is_new=flag)
            elif tok == "pred_write":
                ext.set_token_meta_data(tok, pred_num=num)
            else:
                ext.set_token_meta_data(tok)
            events.append((tok, flag, num))
        meta = ext.get_meta()
    finally:
        if saved_cls is None:
            try:
                del HexagonTransformerExtension.preds_written
            except AttributeError:
                pass
        else:
            HexagonTransformerExtension.preds_written = saved_cls
    return meta, _spec(events)


def _ok(meta, want):
    return set(meta) == want and len(meta) == len(set(meta))


def step_with_one_event(a: bool, b: bool, c: bool, d: bool, e: bool, f: bool, pre_inst: int, pre_cls: int,
                        t0: int, f0: bool, k0: int) -> bool:
    """
    pre: -1 <= pre_inst <= 3 and -1 <= pre_cls <= 3
    pre: 0 <= t0 < 10 and -1 <= k0 <= 4
    post: __return__
    """
    return _ok(*_run((a, b, c, d, e, f), pre_inst, pre_cls, [(t0, f0, k0)]))


def step_with_no_event(a: bool, b: bool, c: bool, d: bool, e: bool, f: bool, pre_inst: int, pre_cls: int) -> bool:
    """
    pre: -1 <= pre_inst <= 3 and -1 <= pre_cls <= 3
    post: __return__
    """
    return _ok(*_run((a, b, c, d, e, f), pre_inst, pre_cls, []))


def step_with_two_events(a: bool, b: bool, c: bool, d: bool, e: bool, f: bool, pre_inst: int, pre_cls: int,
                         t0: int, f0: bool, k0: int, t1: int, f1: bool, k1: int) -> bool:
    """
    pre: -1 <= pre_inst <= 3 and -1 <= pre_cls <= 3
    pre: 0 <= t0 < 10 and -1 <= k0 <= 4 and 0 <= t1 < 10 and -1 <= k1 <= 4
    post: __return__
    """
    return _ok(*_run((a, b, c, d, e, f), pre_inst, pre_cls, [(t0, f0, k0), (t1, f1, k1)]))


def step_with_three_events_thorough(pre_inst: int, pre_cls: int, t0: int, f0: bool, k0: int, t1: int, f1: bool, k1: int,
                           t2: int, f2: bool, k2: int) -> bool:
    """
    pre: -1 <= pre_inst <= 3 and -1 <= pre_cls <= 3
    pre: 0 <= t0 < 7 and -1 <= k0 <= 4 and 0 <= t1 < 7 and -1 <= k1 <= 4 and 0 <= t2 < 7 and -1 <= k2 <= 4
    post: __return__
    """
    return _ok(*_run((True, True, True, True, True, True), pre_inst, pre_cls, [(t0, f0, k0), (t1, f1, k1), (t2, f2, k2)]))


def noped_reports_none(a: bool, b: bool, c: bool, d: bool, e: bool, f: bool, pre_cls: int) -> bool:
    """
    pre: -1 <= pre_cls <= 3
    post: __return__
    """
    ext = HexagonTransformerExtension(None)
    (ext.uses_new, ext.writes_mem, ext.reads_mem, ext.is_conditional, ext.branches, ext.writes_predicate) = (a, b, c, d, e, f)
    if pre_cls >= 0:
        ext.preds_written = [pre_cls]
    return ext.get_noped_meta() == [ATTR + "NONE"]


def vacuity_twin(a: bool, b: bool, pre_inst: int, pre_cls: int, t0: int, f0: bool, k0: int) -> bool:
    """
    pre: -1 <= pre_inst <= 3 and -1 <= pre_cls <= 3
    pre: 0 <= t0 < 10 and -1 <= k0 <= 4
    post: __return__
    """
    _run((a, b, a, b, a, b), pre_inst, pre_cls, [(t0, f0, k0)])
    return False
