#!/bin/bash
# Build the verification environment from files on disk only (offline).
# Overlay venv on top of /venv (which holds the repository and its dependencies) + solver wheels.
set -e
cd "$(dirname "$0")"
V=/verif/.venv
if [ ! -x "$V/bin/python" ] || ! "$V/bin/python" -c "import z3, crosshair, jsonschema, lark" 2>/dev/null; then
  rm -rf "$V"
  /venv/bin/python -m venv "$V"
  SP=$("$V/bin/python" -c "import site; print(site.getsitepackages()[0])")
  printf "import site; site.addsitedir('/venv/lib/python3.12/site-packages')\n" > "$SP/_verif_overlay.pth"
  PIP_NO_INDEX=1 "$V/bin/pip" install -q --no-index --find-links /opt/veriftools/wheels z3-solver crosshair-tool jsonschema cvc5 >/dev/null
fi
"$V/bin/python" -c "import z3, crosshair, jsonschema, lark; print('verif venv ok: z3', z3.get_version_string())"
