#!/usr/bin/env python3
"""Developer tool: run ALL quick checks against a behaviour-preserving variant in a scratch worktree (false-alarm test).
usage: tools_benign.py <scratch-worktree> <variant-dir>...   prints one JSON line per variant"""
import json, os, subprocess, sys, time
wt = sys.argv[1]
def sh(cmd, **kw):
    return subprocess.run(cmd, shell=True, stdout=subprocess.PIPE, stderr=subprocess.STDOUT, **kw)
head = sh("git -C /repo rev-parse HEAD").stdout.decode().strip()
checks = os.environ.get("BENIGN_CHECKS", "C01 C02 C03 C04 C05 C06 C07 C08 C09 C10 C11 C12 C13 C14 C15 C16 C17 C18 C19 C20").split()
for m in sys.argv[2:]:
    mid = os.path.basename(m.rstrip("/"))
    sh(f"git -C {wt} reset -q --hard && git -C {wt} checkout -q --detach {head} && git -C {wt} reset -q --hard {head} && git -C {wt} clean -fdq")
    r = sh(f"git -C {wt} apply --3way {m}/patch.diff")
    rec = dict(variant=mid, applied=r.returncode == 0, checks={})
    if r.returncode != 0:
        rec["apply_error"] = r.stdout.decode()[-300:]
        print(json.dumps(rec)); sys.stdout.flush(); continue
    for c in checks:
        t0 = time.time()
        k = sh(f"cd /verif && ./check {c} --tier quick", env=dict(os.environ, VERIF_REPO=wt))
        out = k.stdout.decode()
        viol = [l for l in out.splitlines() if l.startswith("VIOLATION")]
        rec["checks"][c] = dict(exit=k.returncode, violations=len(viol), secs=round(time.time() - t0),
                                first=(out.split("VIOLATION", 1)[1][:300] if viol else ("" if k.returncode == 0 else out[-300:])))
    sh(f"git -C {wt} reset -q --hard {head} && git -C {wt} clean -fdq")
    print(json.dumps(rec)); sys.stdout.flush()
