ENGINES = [
 dict(name="TV", path="/verif/vf/tv.py", serves_properties=["C01"], kind_free_text="SMT (z3 QF_AUFBV) translation validation: emitted RzIL effect text vs independent C11/QEMU reference semantics, all machine state symbolic; models replayed concretely on the real compiler's output"),
]
NOTES = "Solver-based checking of the real code. Fix commits in /repo: 378727f 3fd3820 75a2fe8 4ae4fa2 47c0cfb (see known_findings.json 'fixed'). Exit 2 = harness error (never a verdict)."
NOT_APPLICABLE = {}
chk("C01", "translation_validation",
    "Every accepted part of the 2181 bundled definitions and the 13 sub-routines: one z3 equivalence query per part between the RzIL text the real compiler emits and the C behaviour text under C11+QEMU semantics, with all register banks, immediates, pc and memory symbolic; unsat = equal for every initial state within the unroll bound (17, with unwinding obligations). Acceptance set must stay a superset of the committed baseline; rejected definitions must raise.",
    "Trusted: operand/plugin contract (DESIGN 1.1), my RzIL and C semantics, z3. UB states assumed away; float/plugin helpers uninterpreted.",
    "TV: SMT translation validation (z3 bit-vectors/arrays) of the real compiler's output", "DESIGN.md 3/C01")
ENGINES[0]["serves_properties"] = ["C01", "C02", "C03", "C05", "C06", "C07", "C08", "C09", "C15", "C16", "C17"]
ENGINES.append(dict(name="WF", path="/verif/vf/wf.py", serves_properties=["C10", "C11", "C12"],
    kind_free_text="per emitted body: z3 sort-constraint problem over all subterms (C10) + ground declaration/ownership facts counted by an own front end of the emitted C text (C11, C12)"))
chk("C10", "other",
    "Every emitted body (whole accepted corpus, all sub-routine bodies, generated programs; both layouts) is turned into one z3 problem over sort variables (kind,width per subterm, one unknown sort per local/LET name) with RzIL's typing rule for every operator occurrence in every arm and loop body; sat = a consistent sorting exists, unsat core = violated rules. No path sampling: all subterms are constrained.",
    "Trusted: my transcription of RzIL typing rules and of the plugin macros' signatures; operand widths from the behaviour's operand tokens. Cross-body clashes of local names (callee vs caller) are caught by the TV engine's inlined execution, not here.",
    "WF: z3 sort-constraint solving over every subterm of the emitted effect", "DESIGN.md 1.4, 3/C10")
chk("C11", "other",
    "Own tokenizer/parser of the emitted C text requires declaration-with-initialiser statements and a final return, each identifier declared once and before use (or parameter / plugin constant / known macro), needs_hi/needs_pkt true whenever an independent tokenizer finds the identifier, sub-routine prologues declare what the body mentions, one getter per part, getter names unique corpus-wide; metadata predicates additionally decided symbolically (SHIM) when built. Enumerated over all accepted bodies in both layouts - ground facts, the solver adds no search here (stated in DESIGN 1.4).",
    "Trusted: my C-dialect front end and the table of plugin macro names; the emitted text is never compiled against Rizin headers (not installed).",
    "WF: exhaustive enumeration of emitted bodies with ground declaration/use constraints (no solver search)", "DESIGN.md 1.4, 3/C11")
chk("C12", "other",
    "Ownership counting on every emitted body in both layouts and on sub-routine bodies: each RzILOpPure variable has exactly one un-DUP'ed use and any further use inside DUP(...), each RzILOpEffect variable exactly one use, borrowed pure parameters at most one un-DUP'ed use, nothing initialised left unused. Enumerated over programs; ground constraints (no solver search).",
    "Trusted: my front end's notion of a 'use' (textual occurrence of the C variable, DUP(...) marks duplication).",
    "WF: exhaustive enumeration of emitted bodies with ownership counting constraints", "DESIGN.md 1.4, 3/C12")
chk("C16", "translation_validation",
    "Both CodeFormat layouts are compiled by two real Compiler instances for every accepted corpus part and family program; one z3 IL==IL query per part over all registers, memory, jump, slot-cancel and every non-temporary local, plus equal attribute lists and equal acceptance.",
    "Trusted: RzIL semantics of vf/ilsem.py; unroll 17 with unwinding obligations.",
    "TV: SMT equivalence of the two emitted effects (z3 bit-vectors/arrays)", "DESIGN.md 3/C16")
