ENGINES = [
 dict(name="TV", path="/verif/vf/tv.py", serves_properties=["C01"], kind_free_text="SMT (z3 QF_AUFBV) translation validation: emitted RzIL effect text vs independent C11/QEMU reference semantics, all machine state symbolic; models replayed concretely on the real compiler's output"),
]
NOTES = "Solver-based checking of the real code. Fix commits in /repo: 378727f 3fd3820 75a2fe8 4ae4fa2 47c0cfb (see known_findings.json 'fixed'). Exit 2 = harness error (never a verdict)."
NOT_APPLICABLE = {}
chk("C01", "translation_validation",
    "Every accepted part of the 2181 bundled definitions and the 13 sub-routines: one z3 equivalence query per part between the RzIL text the real compiler emits and the C behaviour text under C11+QEMU semantics, with all register banks, immediates, pc and memory symbolic; unsat = equal for every initial state within the unroll bound (17, with unwinding obligations). Acceptance set must stay a superset of the committed baseline; rejected definitions must raise.",
    "Trusted: operand/plugin contract (DESIGN 1.1), my RzIL and C semantics, z3. UB states assumed away; float/plugin helpers uninterpreted.",
    "TV: SMT translation validation (z3 bit-vectors/arrays) of the real compiler's output", "DESIGN.md 3/C01")
ENGINES[0]["serves_properties"] = ["C01", "C02", "C03", "C05", "C06", "C07", "C08", "C09", "C15", "C16", "C17"]
ENGINES.append(dict(name="WF", path="/verif/vf/wf.py", serves_properties=["C10", "C11", "C12"],
    kind_free_text="per emitted body: z3 sort-constraint problem over all subterms (C10) + ground declaration/ownership facts counted by an own front end of the emitted C text (C11, C12)"))
chk("C10", "other",
    "Every emitted body (whole accepted corpus, all sub-routine bodies, generated programs; both layouts) is turned into one z3 problem over sort variables (kind,width per subterm, one unknown sort per local/LET name) with RzIL's typing rule for every operator occurrence in every arm and loop body; sat = a consistent sorting exists, unsat core = violated rules. No path sampling: all subterms are constrained.",
    "Trusted: my transcription of RzIL typing rules and of the plugin macros' signatures; operand widths from the behaviour's operand tokens. Cross-body clashes of local names (callee vs caller) are caught by the TV engine's inlined execution, not here.",
    "WF: z3 sort-constraint solving over every subterm of the emitted effect", "DESIGN.md 1.4, 3/C10")
chk("C11", "other",
    "Own tokenizer/parser of the emitted C text requires declaration-with-initialiser statements and a final return, each identifier declared once and before use (or parameter / plugin constant / known macro), needs_hi/needs_pkt true whenever an independent tokenizer finds the identifier, sub-routine prologues declare what the body mentions, one getter per part, getter names unique corpus-wide; metadata predicates additionally decided symbolically (SHIM) when built. Enumerated over all accepted bodies in both layouts - ground facts, the solver adds no search here (stated in DESIGN 1.4).",
    "Trusted: my C-dialect front end and the table of plugin macro names; the emitted text is never compiled against Rizin headers (not installed).",
    "WF: exhaustive enumeration of emitted bodies with ground declaration/use constraints (no solver search)", "DESIGN.md 1.4, 3/C11")
chk("C12", "other",
    "Ownership counting on every emitted body in both layouts and on sub-routine bodies: each RzILOpPure variable has exactly one un-DUP'ed use and any further use inside DUP(...), each RzILOpEffect variable exactly one use, borrowed pure parameters at most one un-DUP'ed use, nothing initialised left unused. Enumerated over programs; ground constraints (no solver search).",
    "Trusted: my front end's notion of a 'use' (textual occurrence of the C variable, DUP(...) marks duplication).",
    "WF: exhaustive enumeration of emitted bodies with ownership counting constraints", "DESIGN.md 1.4, 3/C12")
chk("C16", "translation_validation",
    "Both CodeFormat layouts are compiled by two real Compiler instances for every accepted corpus part and family program; one z3 IL==IL query per part over all registers, memory, jump, slot-cancel and every non-temporary local, plus equal attribute lists and equal acceptance.",
    "Trusted: RzIL semantics of vf/ilsem.py; unroll 17 with unwinding obligations.",
    "TV: SMT equivalence of the two emitted effects (z3 bit-vectors/arrays)", "DESIGN.md 3/C16")
_TVNOTE = "Trusted: operand/plugin contract (DESIGN 1.1), my RzIL and C11/QEMU semantics, z3. Program dimension enumerated (exhaustive at the stated depth; seeded-random beyond), value dimension decided by the solver. UB states assumed away. Known findings are keyed by exact program text in known_findings.json."
chk("C02", "translation_validation",
    "Bounded program family (all 8x8 type pairs x 16 binary operators, unary operators, ?: arm/condition kinds at depth 1; all operator pairs at depth 2; seeded depth 3-4 trees) compiled by the real compiler; one z3 query per program proves the emitted IL equal to the C11 value AND result type (observed through a widening destination) for all operand values of all widths.",
    _TVNOTE, "TV: SMT translation validation over a bounded program family", "DESIGN.md 3/C02")
chk("C03", "translation_validation",
    "All 8x8 (source,target) type pairs and boolean sources in every conversion context (explicit cast, initialiser, assignment, register targets of 8/32/64 bit, sub-routine argument and return through test sub-routines registered via the public API, bit-field macro arguments, stores of every width), chains of 2-3 conversions; z3 proves the C11-converted value for all source values.",
    _TVNOTE, "TV: SMT translation validation over a bounded program family", "DESIGN.md 3/C03")
chk("C05", "translation_validation",
    "All 11 assignment operators x right-hand types x register/local targets, if/else chains, for loops with constant (0..8) and data-dependent trip counts, nested loops, statement pairs and seeded statement trees (nesting <= 4); every arm and trip count is covered by one query with symbolic initial state (unroll 9/17 with unwinding obligation).",
    _TVNOTE, "TV: SMT translation validation over a bounded program family", "DESIGN.md 3/C05")
chk("C06", "translation_validation",
    "13 value-producing operations (postfix ++/--, sub-routine calls, statement-expressions) in 14 syntactic positions with witness statements before/after, pairs on independent state, at temporary-counter offsets 0 and 1000; the IL model inlines callee bodies in RzIL's flat namespace; obligation: every h_tmp/ret_val is written before read on every path.",
    _TVNOTE, "TV: SMT translation validation over a bounded program family", "DESIGN.md 3/C06")
chk("C07", "translation_validation",
    "Every operand spelling of an independently written table of the Hexagon operand syntax (letters x classes x pairs x .new, explicit registers, aliases, immediates, loads/stores, jumps, pc) in read/write/read-after-write position; final states must be equal for all bank contents, and the operand slots resolved by the emitted READ block (incl. new flag) must be exactly the operands the behaviour names.",
    _TVNOTE + " The register class/number/new-flag arguments are compared symbolically as operand identities, not against Rizin.", "TV: SMT translation validation over a bounded program family + operand-identity comparison", "DESIGN.md 3/C07")
chk("C08", "translation_validation",
    "87 sub-routines (13 bundled + generated ones registered through Compiler.add_sub_routine after other compilations) each proved equal to its C source in isolation; call sites with 1..4 calls per expression, nested calls, live results across calls, at temporary offsets 0/1/1000, with callee bodies inlined in the flat RzIL namespace and by-name parameter passing.",
    _TVNOTE, "TV: SMT translation validation over a bounded program family", "DESIGN.md 3/C08")
chk("C09", "translation_validation",
    "Literal spellings x suffixes x boundary values, every foldable operator on 21x21 boundary literal pairs, constant ?: with dead arms that live code still uses, sizeof forms: the folded code is compared with the C11 run-time evaluation (value and type) for all register contents; declared-before-use constraints catch declarations removed with a dead operand.",
    _TVNOTE + " Literals wider than 64 bit are outside the family.", "TV: SMT translation validation over a bounded program family", "DESIGN.md 3/C09")
chk("C15", "translation_validation",
    "64 statements and 10 expressions using constructs of the full C grammar at statement/expression positions of carrier programs. If the compiler returns code: equivalence with the C reference for all states when the reference gives the construct a meaning (break/continue/comma/while/do), otherwise 'the compiler must raise'; plus every declared effect reachable from the returned effect.",
    _TVNOTE, "TV: SMT translation validation + reject-oracle over a construct family", "DESIGN.md 3/C15")
chk("C17", "translation_validation",
    "All 256 ordered operator pairs with differently typed operands, unary/binary, & vs &&, cast vs parenthesis, ?: and assignment associativity, else binding, nesting, look-alike tokens: the parse the compiler used must give the C value for all operand values (independent precedence-climbing parser as oracle). Determinism: the same texts parsed in 8/32 fresh processes with different PYTHONHASHSEED and fresh/reused parser objects (concrete runs).",
    _TVNOTE + " Lark's Earley parser cannot be run on symbolic text: structure is checked through the values it determines; the hash-seed dimension is enumerated.", "TV: SMT translation validation of parse-determined semantics + enumerated hash seeds", "DESIGN.md 3/C17")
ENGINES.append(dict(name="CH", path="/verif/vf/chrun.py", serves_properties=["C04", "C13", "C14", "C18", "C20"],
    kind_free_text="CrossHair (symbolic execution of the real Python functions with z3, every path under a time budget) on harness functions whose PEP-316 postcondition states the property; counterexamples replayed in CPython; vacuity twins"))
ENGINES.append(dict(name="SHIM", path="/verif/vf/shim/", serves_properties=["C19", "C20"],
    kind_free_text="the real regex helper functions run on symbolic byte buffers: their module global `re` is replaced by a stand-in that emits a bounded Boolean/bit-vector encoding of CPython's leftmost/greedy-backtracking semantics (BVRE); z3 decides; encoder validated against CPython re"))
chk("C04", "other",
    "CrossHair on the real c11_cast / promoted_type / ValueType.__eq__ with symbolic (signed, width 1..2048, group flags): result equals the C11 6.3.1.8 table (rank = width), symmetric, deterministic, arguments unmodified and unaliased, promotion threshold 32; 'Confirmed over all paths' for every condition, a vacuity twin must be refuted.",
    "Trusted: CrossHair's path exploration and z3; bounds: widths 1..2048.", "CH: CrossHair symbolic execution of the real functions (z3 per path)", "DESIGN.md 3/C04")
chk("C13", "other",
    "(a) CrossHair inductive step on the real HexagonTransformerExtension from an ARBITRARY pre-state (flags, leftover predicates on instance and class): reset_flags + <=2 (thorough 3) symbolic events + get_meta equals the spec of the events alone - covers histories of any length. (b) all 2^9 attribute-relevant construct combinations and two-part instructions compiled on a used transformer vs attributes derived from my own AST. (c) whole corpus, no-op list, unimplemented marker.",
    "Trusted: CrossHair/z3; my own parser's feature extraction. The construct->callback mapping has no value dimension and is enumerated.", "CH: CrossHair inductive step on the attribute state machine + enumerated construct combinations", "DESIGN.md 3/C13")
chk("C14", "model_checking",
    "(a) the C13 inductive step (attributes, arbitrary pre-state). (b) bounded model checking of histories on the real code: every (input, entry point, instance) prefix of length <= 1, a seeded sample (thorough: all) of length 2 and seeded length 3 over a pool of 10 behaviours + 6 failing inputs, two entry points and two Compiler instances, each followed by probes compared with a FRESH process (text equal up to temporary renaming/comments, else IL==IL solver query; attributes equal; same accept/reject). (c) state-footprint step after every single entry-point call.",
    "Trusted: the footprint's list of persistent state (whitelist: temporary counter, statistics, compiled_insns registry, HYBRID_LVAR bit on sub-routine return types). Histories longer than the bound rely on (a) and (c).", "bounded model checking of compilation histories on the real code + CrossHair induction + SMT IL==IL oracle", "DESIGN.md 3/C14")
chk("C18", "other",
    "CrossHair on the real Parser.parse / parse_single under environment stubs (Pool.imap by its documented contract, Lark raising arbitrary exception classes for broken behaviours): for every choice of entries, parts, broken parts and exception class: one entry per name, trees in order, failures isolated with the error's class name, equal to sequential parsing. The real pool is additionally run with sizes 1, 2, 16 on corpus subsets with injected broken behaviours (concrete validation of the stub's contract).",
    "Pool sizes and task interleavings are discharged BY imap's documented contract, not explored: multiprocessing's C/OS scheduling cannot be encoded by any engine here.", "CH: CrossHair on the pool glue under contract stubs (+ concrete runs of the real pool)", "DESIGN.md 3/C18")
chk("C19", "other",
    "The real split_resolved_shortcode and split_compounds executed on symbolic byte buffers (BVRE encoding of their regexes): for every 'insn(' NAME ', ' BODY ')' ['\\n'] line within the bound the recovered NAME/BODY equal the inputs and the no-match branch is infeasible; for every '{' PRE MARK '{' P1 '}' MARK P2 '}' the parts are exactly '{P1}' / '{P2}'. All 2181 bundled lines / 72 compounds executed against an independent splitter; malformed lines must raise.",
    "Bounds: line buffer 30/40 bytes (NAME <= 8), compound buffer 56/64 bytes, printable ASCII. BVRE supports the regex subset these functions use; validated against CPython re on every run.", "SHIM: real functions on symbolic strings, bounded bit-vector encoding of CPython re, z3", "DESIGN.md 3/C19")
chk("C20", "other",
    "(1) the real replace_do_while_0 on symbolic buffers (one / two sequential / two nested wrappers built from free fragments; its while loop run with one decision per search and a termination obligation): result == input with every wrapper replaced by its body; look-alikes by concrete differential against a token-level remover. (2) CrossHair on the real patch_macros (symbolic choice of names incl. duplicates, user-only and twice-defined patches, line continuation). (3) bundled domain executed: run_preprocess_steps() in a scratch copy reproduces the bundled files, names one-to-one, every resolved line equals cpp and clang -E output token-wise modulo the do-while(0) rewrite.",
    "cleanup_macros and pcpp's fixpoint on GENERATED macro files are outside the claim (covered on the bundled files only). Bounds: 34/44-byte buffers, <= 3 macros, <= 2 patches.", "SHIM + CH: real functions on symbolic strings / symbolic choices; bundled domain executed against two independent preprocessors", "DESIGN.md 3/C20")
