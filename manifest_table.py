ENGINES = [
 dict(name="TV", path="/verif/vf/tv.py", serves_properties=["C01"], kind_free_text="SMT (z3 QF_AUFBV) translation validation: emitted RzIL effect text vs independent C11/QEMU reference semantics, all machine state symbolic; models replayed concretely on the real compiler's output"),
]
NOTES = "Solver-based checking of the real code. Fix commits in /repo: 378727f 3fd3820 75a2fe8 4ae4fa2 47c0cfb (see known_findings.json 'fixed'). Exit 2 = harness error (never a verdict)."
NOT_APPLICABLE = {}
chk("C01", "translation_validation",
    "Every accepted part of the 2181 bundled definitions and the 13 sub-routines: one z3 equivalence query per part between the RzIL text the real compiler emits and the C behaviour text under C11+QEMU semantics, with all register banks, immediates, pc and memory symbolic; unsat = equal for every initial state within the unroll bound (17, with unwinding obligations). Acceptance set must stay a superset of the committed baseline; rejected definitions must raise.",
    "Trusted: operand/plugin contract (DESIGN 1.1), my RzIL and C semantics, z3. UB states assumed away; float/plugin helpers uninterpreted.",
    "TV: SMT translation validation (z3 bit-vectors/arrays) of the real compiler's output", "DESIGN.md 3/C01")
