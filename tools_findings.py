#!/usr/bin/env python3
"""Developer tool (never run by a registered command): add the new violations of the last run of <PROP>
that match <regex> and <clause> to known_findings.json under finding <id>.
usage: tools_findings.py PROP ID CLAUSE REGEX "what" """
import json, re, sys
if sys.argv[1] == "--rehash":
    # record, for every listed key of PROP with clause 'value', the emitted code the finding is observed on (from the last run):
    # baselines/finding_il/<PROP>.json; the check later asks the solver whether the code emitted for that input is still equivalent
    import os
    prop = sys.argv[2]
    h = json.load(open(f"/verif/replays/{prop}/_last_violation_il.json"))
    kf = json.load(open("/verif/known_findings.json"))
    out = {}
    for e in kf["findings"]:
        e.pop("il_sha", None)
        if e["property"] != prop or e["clause"] != "value":
            continue
        for k in e["keys"]:
            if k in h:
                out[k] = h[k]
    os.makedirs("/verif/baselines/finding_il", exist_ok=True)
    json.dump(out, open(f"/verif/baselines/finding_il/{prop}.json", "w"), indent=0)
    json.dump(kf, open("/verif/known_findings.json", "w"), indent=1)
    print(prop, "recorded IL for", len(out), "value findings")
    sys.exit(0)
prop, fid, clause, rx, what = sys.argv[1:6]
v = json.load(open(f"/verif/replays/{prop}/_last_new_violations.json"))
keys = sorted({x["key"] for x in v if x["clause"] == clause and re.search(rx, x["key"])})
kf = json.load(open("/verif/known_findings.json"))
for e in kf["findings"]:
    if e["property"] == prop and e["id"] == fid:
        if e["clause"] != clause:
            sys.exit(f"finding {fid} already exists with clause {e['clause']!r}; use another id for clause {clause!r}")
        e["keys"] = sorted(set(e["keys"]) | set(keys)); e["what"] = what; e["clause"] = clause
        break
else:
    kf["findings"].append(dict(property=prop, id=fid, clause=clause, what=what, keys=keys))
json.dump(kf, open("/verif/known_findings.json", "w"), indent=1)
print(f"{fid}: {len(keys)} keys")
