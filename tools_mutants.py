#!/usr/bin/env python3
"""Developer tool: evaluate seeded changes in a scratch worktree (never in /repo, never a registered command).
usage: tools_mutants.py <scratch-worktree> <mutant-dir>... [--checks C01,C02] [--skip-suite]
For each mutant: reset worktree to /repo HEAD, apply patch.diff (3-way), run the unit suite, run demo.py (must fail),
run the checks with VERIF_REPO=<worktree>, revert, run demo.py again (must pass).  Prints one JSON line per mutant."""
import json, os, subprocess, sys, time
wt = sys.argv[1]
args = sys.argv[2:]
checks = None
skip_suite = "--skip-suite" in args
if "--checks" in args:
    checks = args[args.index("--checks") + 1].split(",")
muts = [a for a in args if os.path.isdir(a)]
def sh(cmd, **kw):
    return subprocess.run(cmd, shell=True, stdout=subprocess.PIPE, stderr=subprocess.STDOUT, **kw)
head = sh("git -C /repo rev-parse HEAD").stdout.decode().strip()
for m in muts:
    mid = os.path.basename(m.rstrip("/"))
    prop = mid.split("_")[0]
    sh(f"git -C {wt} reset -q --hard && git -C {wt} checkout -q --detach {head} && git -C {wt} reset -q --hard {head} && git -C {wt} clean -fdq")
    r = sh(f"git -C {wt} apply --3way {m}/patch.diff")
    rec = dict(mutant=mid, applied=r.returncode == 0)
    if r.returncode != 0:
        rec["apply_error"] = r.stdout.decode()[-300:]
        print(json.dumps(rec)); sys.stdout.flush(); continue
    env = dict(os.environ, PYTHONPATH=wt)
    if not skip_suite:
        t = sh(f"cd {wt} && /venv/bin/python -m pytest -q -p no:cacheprovider --timeout=900 rzilcompiler/Tests 2>&1 | tail -1", env=env)
        rec["suite"] = t.stdout.decode().strip()[-80:]
    d = sh(f"cd {wt} && /venv/bin/python {m}/demo.py", env=env)
    rec["demo_with_patch_exit"] = d.returncode
    rec["checks"] = {}
    for c in (checks or [prop]):
        t0 = time.time()
        k = sh(f"cd /verif && ./check {c} --tier quick", env=dict(os.environ, VERIF_REPO=wt))
        out = k.stdout.decode()
        viol = [l for l in out.splitlines() if l.startswith("VIOLATION")]
        rec["checks"][c] = dict(exit=k.returncode, violations=len(viol), secs=round(time.time() - t0),
                                first=(out.split("VIOLATION", 1)[1][:400] if viol else out[-300:]))
    sh(f"git -C {wt} reset -q --hard {head} && git -C {wt} clean -fdq")
    d2 = sh(f"cd {wt} && /venv/bin/python {m}/demo.py", env=env)
    rec["demo_without_patch_exit"] = d2.returncode
    print(json.dumps(rec)); sys.stdout.flush()
