#!/usr/bin/env python3
"""Developer tool (never a registered command): how many seeded changes does the UNTARGETED mixed family catch on its own?
usage: tools_mixed_eval.py <scratch-worktree> <n-programs> <seeded dirs...>
For each change: reset the worktree, apply patch.diff, run N mixed programs (salt 99, not a salt any check uses) through the TV
engine with VERIF_REPO=<worktree>, print one JSON line {mutant, verdict counts}."""
import json, os, subprocess, sys
if len(sys.argv) > 1 and sys.argv[1] == "--worker":
    import collections
    sys.path.insert(0, "/verif")
    from vf import family_run, families, corpus
    from vf.framework import Report
    n = int(sys.argv[2])
    corpus.EXTRA_SUBS = families.c08_subs()
    corpus.EXTRA_SUBS_LATE = True
    from vf.checks.c08 import C08_MIX_CALLS
    progs = families.mixed("quick", n, 99) + families.mixed("quick", n // 2, 98, calls=C08_MIX_CALLS)
    rep = Report("C05", "quick", "translation_validation")
    out = collections.Counter()
    first = None
    for hyb in (1000, 0):
        recs = family_run.run_family(rep, "mixed_probe", progs if hyb == 1000 else progs[: n // 4], dict(timeout_ms=10000, unroll=9), wf_clauses=("c10:", "c11:"), hybs=(hyb,))
        for r in recs:
            out[r["verdict"]] += 1
            wfp = [p for p in r.get("wf", []) if p[0].startswith(("c10:", "c11:"))]
            if wfp:
                out["wf"] += 1
            if first is None and (r["verdict"] not in ("equiv", "gap", "unknown") or wfp):
                first = (r["verdict"], r["c"][:300], str(r.get("detail"))[:160], str(wfp)[:160])
    print("RESULT " + json.dumps(dict(counts=out, first=first)))
    sys.exit(0)
wt, n = sys.argv[1], sys.argv[2]
head = subprocess.run("git -C /repo rev-parse HEAD", shell=True, stdout=subprocess.PIPE).stdout.decode().strip()
for m in map(os.path.abspath, sys.argv[3:]):
    mid = os.path.basename(m.rstrip("/"))
    subprocess.run(f"git -C {wt} reset -q --hard {head} && git -C {wt} clean -fdq", shell=True)
    r = subprocess.run(f"git -C {wt} apply --3way {m}/patch.diff", shell=True, stdout=subprocess.PIPE, stderr=subprocess.STDOUT)
    if r.returncode != 0:
        print(json.dumps(dict(mutant=mid, applied=False))); sys.stdout.flush(); continue
    k = subprocess.run(f"cd /verif && .venv/bin/python tools_mixed_eval.py --worker {n}", shell=True, stdout=subprocess.PIPE, stderr=subprocess.STDOUT,
                       env=dict(os.environ, VERIF_REPO=wt, PYTHONPATH=f"{wt}:/verif", PYTHONDONTWRITEBYTECODE="1"))
    res = [l for l in k.stdout.decode().splitlines() if l.startswith("RESULT ")]
    print(json.dumps(dict(mutant=mid, result=json.loads(res[0][7:]) if res else k.stdout.decode()[-400:]))); sys.stdout.flush()
    subprocess.run(f"git -C {wt} reset -q --hard {head} && git -C {wt} clean -fdq", shell=True)
